#!/bin/sh
# Build the overlay venv used by every check: /venv's python + /venv's site-packages (einx deps)
# + /repo on the path + crosshair-tool, z3-solver, jsonschema from the offline wheelhouse.
# Idempotent; safe to call from every check.
set -e
HERE="$(cd "$(dirname "$0")" && pwd)"
VENV="$HERE/.venv"
STAMP="$VENV/.ok"
if [ -f "$STAMP" ] && "$VENV/bin/python" -c "import z3, crosshair, einx, numpy, sympy" >/dev/null 2>&1; then
  exit 0
fi
rm -rf "$VENV"
/venv/bin/python -m venv "$VENV"
SP="$("$VENV/bin/python" -c 'import sysconfig; print(sysconfig.get_paths()["purelib"])')"
printf '%s\n%s\n' "/venv/lib/python3.12/site-packages" "/repo" > "$SP/verif_overlay.pth"
PIP_NO_INDEX=1 "$VENV/bin/python" -m pip install --quiet --no-index --find-links /opt/veriftools/wheels \
    crosshair-tool z3-solver jsonschema >/dev/null
"$VENV/bin/python" -c "import z3, crosshair, einx, numpy, sympy; print('overlay ok', z3.get_version_string())"
touch "$STAMP"
