"""Run checks against a seeded change: apply seeded/<name>/patch.diff to /repo, run the given checks (default:
the property named in meta.json), undo the patch. Prints one line per check: detected / missed.

usage: tools_seeded.py <name> [Cxx ...] [--tier quick|thorough]
"""
import json
import os
import subprocess
import sys

ROOT = os.path.dirname(os.path.abspath(__file__))


def main():
    args = [a for a in sys.argv[1:] if not a.startswith("--")]
    tier = "quick"
    if "--tier" in sys.argv:
        tier = sys.argv[sys.argv.index("--tier") + 1]
        args = [a for a in args if a != tier]
    name = args[0]
    d = os.path.join(ROOT, "seeded", name)
    meta = json.load(open(os.path.join(d, "meta.json")))
    checks = args[1:] or [meta["property"]]
    st = subprocess.run(["git", "-C", "/repo", "status", "--porcelain", "--untracked-files=no"], capture_output=True, text=True).stdout.strip()
    if st:
        print("refusing: /repo has uncommitted changes:\n" + st)
        return 2
    subprocess.check_call(["git", "-C", "/repo", "apply", os.path.join(d, "patch.diff")])
    results = {}
    # evidence/ must describe the unchanged tree: keep the files and put them back afterwards
    saved = {}
    for c in checks:
        ev = os.path.join(ROOT, "evidence", f"{c}.json")
        if os.path.exists(ev):
            saved[ev] = open(ev).read()
    try:
        for c in checks:
            p = subprocess.run([os.path.join(ROOT, "check"), c, tier], capture_output=True, text=True)
            viol = [l for l in p.stdout.splitlines() if l.startswith("VIOLATION")]
            results[c] = {"exit": p.returncode, "violations": len(viol), "first": (p.stdout.split("VIOLATION", 1)[1][:600] if viol else ""), "tail": p.stdout.strip().splitlines()[-1] if p.stdout.strip() else ""}
            print(f"{name}: {c} [{tier}] -> exit {p.returncode}, {len(viol)} VIOLATION line(s) :: {'DETECTED' if p.returncode == 1 and viol else 'MISSED' if p.returncode == 0 else 'HARNESS-ERROR'}")
            if viol:
                print("   " + results[c]["first"].replace("\n", "\n   ")[:500])
    finally:
        subprocess.check_call(["git", "-C", "/repo", "checkout", "--", "."])
        for ev, text in saved.items():
            open(ev, "w").write(text)
    rec = os.path.join(d, "detection.json")
    old = json.load(open(rec)) if os.path.exists(rec) else {}
    for c, r in results.items():
        old[f"{c}:{tier}"] = {"exit": r["exit"], "violation_lines": r["violations"], "verdict": "detected" if r["exit"] == 1 and r["violations"] else "missed" if r["exit"] == 0 else "harness-error", "first": r["first"][:400]}
    json.dump(old, open(rec, "w"), indent=1)
    print(json.dumps({name: results}))
    return 0


if __name__ == "__main__":
    sys.exit(main())
