#!/bin/sh
# run every registered check of one tier on the current /repo tree; summary lines only
# usage: tools_runall.sh [quick|thorough] [ids...]
cd "$(dirname "$0")"
tier=${1:-quick}; shift
ids=${*:-C01 C02 C03 C04 C05 C06 C07 C08 C09 C10 C11 C12 C13 C14 C15 C16}
for c in $ids; do
  s=$(date +%s)
  out=$(./check $c $tier 2>&1); rc=$?
  e=$(date +%s)
  echo "$c $tier exit=$rc wall=$((e-s))s viol_lines=$(echo "$out" | grep -c '^VIOLATION') :: $(echo "$out" | tail -1 | cut -c1-200)"
done
