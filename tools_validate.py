"""Validate MANIFEST.json and every evidence file against the schemas."""
import json, sys, glob, jsonschema
m = json.load(open('/verif/MANIFEST.json'))
jsonschema.validate(m, json.load(open('/root/.vp/MANIFEST.schema.json')))
es = json.load(open('/root/.vp/EVIDENCE.schema.json'))
for c in m['checks']:
    try:
        jsonschema.validate(json.load(open(c['evidence_file'])), es); print('ok', c['property_id'])
    except Exception as e:
        print('BAD', c['property_id'], str(e)[:300])
ids = {json.loads(l)['id'] for l in open('/verif/properties.jsonl')}
claimed = {c['property_id'] for c in m['checks']}; na = {n['property_id'] for n in m.get('not_applicable', [])}
print('unaccounted:', sorted(ids - claimed - na))
