"""Relational harnesses: two (or three) public einx calls on the same symbolic tensors, z3 proves the
stated relation between their results for all contents; counterexamples are replayed on plain numpy."""

import hashlib
import json
import os
import re

import numpy as np

from . import elem, family, harness, prove, replay, runner, symarray as S
from .desc import Ax, Num, Grp, Cat, Brk, Ell, expand, shape, dims, leaves

PAIR_TEMPLATE = r'''#!/venv/bin/python
"""Replay of a relational counterexample found by /verif (property {prop}): {title}
Exit status 1 and a line starting with REPRODUCED when the real code shows the violation."""
import json, os, sys
HASHSEED = "{hashseed}"
if os.environ.get("PYTHONHASHSEED") != HASHSEED:
    os.environ["PYTHONHASHSEED"] = HASHSEED
    os.execv(sys.executable, [sys.executable] + sys.argv)
import numpy as np
sys.path.insert(0, "/repo")
import einx

SPEC = json.loads(r"""{spec}""")

def arr(a):
    return np.array(a["data"], dtype=a["dtype"]).reshape(a["shape"])

def tup(v):
    return tuple(tup(x) for x in v) if isinstance(v, list) else v

def run(c, prev=None):
    args = list(prev) if c["args"] == "PREV" else [arr(a) for a in c["args"]]
    kwargs = {{k: tup(v) for k, v in c["kwargs"].items()}}
    if c.get("backend"):
        kwargs["backend"] = c["backend"]
    if c["op"] == "__input__":
        return ("ok", [np.asarray(a) for a in args])
    try:
        out = getattr(einx, c["op"])(c["desc"], *args, **kwargs)
    except Exception as e:
        return ("raised", type(e).__name__, str(e)[:200].replace("\n", " | "))
    outs = list(out) if isinstance(out, (tuple, list)) else [out]
    return ("ok", [np.asarray(o) for o in outs])

def post(o, ops):
    for op in ops:
        if op[0] == "transpose":
            o = np.transpose(o, op[1])
        elif op[0] == "reshape":
            o = np.reshape(o, op[1])
    return o

def same(a, b, tol):
    if a.shape != b.shape:
        return False
    if tol == 0:
        return bool(np.array_equal(a, b))
    return bool(np.allclose(a.astype(float), b.astype(float), rtol=tol, atol=tol))

def main():
    tol = SPEC.get("tol", 0)
    chains = []
    for chain in SPEC["chains"]:
        prev = None
        res = None
        for c in chain:
            print("call: einx.%s(%r, ..., **%r) backend=%r" % (c["op"], c["desc"], c["kwargs"], c.get("backend")))
            res = run(c, prev)
            if res[0] == "raised":
                print("  raised", res[1], res[2])
                break
            prev = res[1]
        chains.append(res)
    a, b = chains
    if a[0] == "raised" or b[0] == "raised":
        if a[0] == b[0] and a[1] == b[1]:
            print("NOT-REPRODUCED: both raise", a[1])
            return 0
        if SPEC.get("exceptions_must_agree", True):
            print("REPRODUCED: one side raises %s, the other %s" % (a[1] if a[0] == "raised" else "nothing", b[1] if b[0] == "raised" else "nothing"))
            return 1
        print("NOT-REPRODUCED (exception on one side not part of the relation)")
        return 0
    outs_a = [post(o, ops) for o, ops in zip(a[1], SPEC["post_a"])]
    outs_b = b[1]
    if len(outs_a) != len(outs_b):
        print("REPRODUCED: different number of outputs")
        return 1
    for i, (x, y) in enumerate(zip(outs_a, outs_b)):
        if not same(x, y, tol):
            print("REPRODUCED: output %d differs:\n  A -> %r\n  B -> %r" % (i, x.tolist(), y.tolist()))
            return 1
    print("NOT-REPRODUCED: relation holds on the real code")
    return 0

sys.exit(main())
'''


def write_pair(prop, title, spec):
    os.makedirs(os.path.join(runner.REPLAY_DIR, prop), exist_ok=True)
    text = json.dumps(runner.jsonable(spec))
    h = hashlib.sha1((title + text).encode()).hexdigest()[:12]
    path = os.path.join(runner.REPLAY_DIR, prop, f"pair_{h}.py")
    with open(path, "w") as f:
        f.write(PAIR_TEMPLATE.format(prop=prop, title=title.replace('"""', "'''"), spec=text.replace('"""', '\\"\\"\\"'), hashseed=os.environ.get("PYTHONHASHSEED", "0")))
    return path


# ---------------------------------------------------------------------------------------------------
# transformations of cases


_NAME = re.compile(r"[a-zA-Z_][a-zA-Z0-9_]*")


def rename_string(desc, mapping):
    return _NAME.sub(lambda m: mapping.get(m.group(0), m.group(0)), desc)


def make_renaming(case, rng):
    """Bijective renaming onto names that sort in the opposite order (changes set/cse orders)."""
    names = sorted(set(_NAME.findall(case["desc"])) | set(case["kwargs"]))
    pool = ["zz", "y_", "X", "w9", "V1", "u", "tt", "S_s", "r", "q0", "p", "o1"]
    if rng.random() < 0.5:
        pool = list(reversed(pool))
    rng.shuffle(pool) if rng.random() < 0.3 else None
    opt_names = set(case["opts"])
    fresh = [p for p in pool if p not in names and p not in opt_names]
    return {n: fresh[i] for i, n in enumerate(names)}


def make_renaming_lexical(case, rng):
    """Bijective renaming onto a lexically varied pool: single upper/lower-case letters next to multi-character
    names, digits, underscores and names that look like generated ones - a result must not depend on spelling."""
    names = sorted(set(_NAME.findall(case["desc"])) | set(case["kwargs"]))
    upper = list("ABCDEFGH")
    multi = ["seq", "ab", "x1", "_", "cse0", "unnamed", "Ab", "a_b", "i0", "np"]
    lower = list("ijklmn")
    pool = []
    ups, mul, low = upper[:], multi[:], lower[:]
    rng.shuffle(mul)
    if rng.random() < 0.5:
        rng.shuffle(ups)
    while ups or mul or low:
        r = rng.random()
        src = ups if (r < 0.45 and ups) else mul if (r < 0.85 and mul) else low if low else (ups or mul)
        pool.append(src.pop(0))
    opt_names = set(case["opts"])
    fresh = [p for p in pool if p not in names and p not in opt_names]
    return {n: fresh[i] for i, n in enumerate(names)}


def item_ndims(it):
    if isinstance(it, Brk):
        return sum(item_ndims(i) for i in it.items)
    if isinstance(it, Ell):
        return it.n * item_ndims(it.item)
    return 1


def permute_expr(expr, rng):
    """Random reordering of top-level items that keeps the relative order of bracketed items.
    Returns (new expr, dims permutation p with new_dim[i] = old_dim[p[i]]) or None."""
    items = list(expr)
    if len(items) < 2:
        return None
    idx = list(range(len(items)))
    br = [i for i in idx if any(isinstance(x, Brk) for x in _walk((items[i],)))]
    for _ in range(20):
        p = idx[:]
        rng.shuffle(p)
        if [i for i in p if i in br] == br and p != idx:
            break
    else:
        return None
    starts, pos = [], 0
    for it in items:
        starts.append(pos)
        pos += item_ndims(it)
    perm = []
    for i in p:
        perm.extend(range(starts[i], starts[i] + item_ndims(items[i])))
    return tuple(items[i] for i in p), perm


def group_expr(expr, rng):
    """Wrap two adjacent un-bracketed top-level items in parentheses. Returns (new expr, new shape fn)."""
    items = list(expr)
    cands = [i for i in range(len(items) - 1) if all(isinstance(items[j], (Ax, Num, Grp)) for j in (i, i + 1))]
    if not cands:
        return None
    i = rng.choice(cands)
    new = items[:i] + [Grp((items[i], items[i + 1]))] + items[i + 2 :]
    return tuple(new)


def ungroup_expr(expr, rng):
    items = list(expr)
    cands = [i for i, it in enumerate(items) if isinstance(it, Grp) and len(it.items) >= 1 and all(isinstance(x, (Ax, Num, Grp)) for x in it.items)]
    if not cands:
        return None
    i = rng.choice(cands)
    new = items[:i] + list(items[i].items) + items[i + 1 :]
    return tuple(new)


def all_sizes_kwargs(case, exprs):
    """Keyword sizes for every named axis (legal: constraints may be given for any axis); ellipsis axes as
    tuples."""
    kw = {}
    groups = {}
    for e in exprs:
        for l, _ in leaves(expand(e)):
            if isinstance(l, Ax):
                if "." in l.name:
                    base, i = l.name.split(".")
                    groups.setdefault(base, {})[int(i)] = l.size
                else:
                    kw[l.name] = l.size
    for b, d in groups.items():
        kw[b] = tuple(d[i] for i in range(len(d)))
    # zero-repetition ellipses and anonymous ones cannot be named
    for e in exprs:
        for it in _walk(e):
            if isinstance(it, Ell):
                nm = family.ell_names(it)
                for n in nm:
                    if it.anon:
                        kw.pop(n, None)
                    elif it.n == 0:
                        kw[n] = ()
    return kw


def _walk(items):
    for it in items:
        yield it
        if isinstance(it, (Grp, Brk)):
            yield from _walk(it.items)
        elif isinstance(it, Cat):
            yield from _walk(it.parts)
        elif isinstance(it, Ell):
            yield from _walk((it.item,))


# ---------------------------------------------------------------------------------------------------
# deciding a relation


def call_any(op, desc, arrs, kwargs, backend):
    import einx

    kw = dict(kwargs)
    if backend:
        kw["backend"] = backend
    return getattr(einx, op)(desc, *arrs, **kw)


def outcome(op, desc, arrs, kwargs, backend):
    try:
        out = call_any(op, desc, arrs, kwargs, backend)
        return "ok", harness.as_list(out)
    except Exception as e:  # noqa: BLE001
        return "raised", (harness.classify_exception(e), type(e).__name__, str(e)[:400])


def decide_pair(prop, title, chain_a, chain_b, post_a, arrs, assumptions=(), timeout_ms=15000, kinds=None, tol_ops=False, exceptions_must_agree=True):
    """chain_x: list of (op, desc, arg spec, kwargs, backend) where arg spec is a list of indices into
    `arrs` or the string 'PREV' (result of the previous call of the chain). post_a: per output list of
    ('transpose', perm) / ('reshape', shape) applied to A's outputs before comparison with B's."""
    res = {"title": title}

    def run_chain(chain):
        prev = None
        for op, desc, argspec, kwargs, backend in chain:
            if argspec == "PREV":
                args = list(prev)
            else:
                args = [S.wrap(S.plain(arrs[a]).copy()) for a in argspec]
            if op == "__input__":
                st, val = "ok", args
            else:
                st, val = outcome(op, desc, args, kwargs, backend)
            if st == "raised":
                return st, val
            prev = val
        return "ok", val

    sa, va = run_chain(chain_a)
    sb, vb = run_chain(chain_b)
    if sa == "raised" or sb == "raised":
        ca = va[0] if sa == "raised" else "ok"
        cb = vb[0] if sb == "raised" else "ok"
        if "unmodelled" in (ca, cb):
            res["status"] = "unmodelled"
            return res
        if sa == sb and va[1] == vb[1]:
            res["status"] = "both-raise"
            res["error"] = va[1]
            return res
        if sa == sb:
            res["status"] = "both-raise-different"
            res["error"] = f"{va[1]} vs {vb[1]}"
            return res
        if not exceptions_must_agree or "unsupported" in (ca, cb):
            res["status"] = "one-raises-ignored"
            res["error"] = str(va if sa == "raised" else vb)[:200]
            return res
        res["status"] = "asymmetric?"
        res["error"] = str(va if sa == "raised" else vb)[:600]
        model_inputs = [zeros_like(a, k) for a, k in zip(arrs, kinds or ["int"] * len(arrs))]
    else:
        try:
            pa = [apply_post(S.plain(harness.wrapnd(o)), ops) for o, ops in zip(va, post_a)]
            pairs = list(zip(pa, [S.plain(harness.wrapnd(o)) for o in vb]))
            if len(va) != len(vb):
                raise prove.ShapeMismatch(len(va), len(vb))
            verdict, model, dt = prove.prove_equal(pairs, assumptions, timeout_ms)
        except prove.ShapeMismatch as e:
            verdict, model, dt = "sat", None, 0.0
            res["shape_mismatch"] = str(e)
        res["verdict"], res["solver_s"] = verdict, dt
        if verdict in ("unsat", "trivial"):
            res["status"] = "holds"
            return res
        if verdict == "unknown":
            res["status"] = "unknown"
            return res
        res["status"] = "violation?"
        if model is None:
            model_inputs = [zeros_like(a, k) for a, k in zip(arrs, kinds or ["int"] * len(arrs))]
        else:
            model_inputs = [prove.concretise(a, model) for a in arrs]
    # replay
    conc = [replay.enc_array(_norm_arr(m), k) for m, k in zip(model_inputs, kinds or ["int"] * len(arrs))]

    def enc_chain(chain):
        return [{"op": op, "desc": desc, "args": "PREV" if argspec == "PREV" else [conc[a] for a in argspec], "kwargs": runner.jsonable(kwargs), "backend": backend} for op, desc, argspec, kwargs, backend in chain]

    spec = {"chains": [enc_chain(chain_a), enc_chain(chain_b)], "post_a": post_a, "tol": 1e-6 if tol_ops else 0, "exceptions_must_agree": exceptions_must_agree}
    path = write_pair(prop, title, spec)
    ok, out = replay.run_script(path)
    res["replay"], res["replay_out"] = path, out[-1500:]
    res["status"] = "violation" if ok else "not-reproduced"
    return res


def _norm_arr(m):
    a = np.empty(np.shape(m), dtype=object)
    mm = np.asarray(m, dtype=object)
    for pos in np.ndindex(*a.shape):
        a[pos] = elem.norm(mm[pos])
    return a


def zeros_like(a, kind):
    out = np.empty(np.shape(a), dtype=object)
    for pos in np.ndindex(*out.shape):
        out[pos] = False if kind == "bool" else 0
    return out


def apply_post(o, ops):
    for op in ops:
        if op[0] == "transpose":
            o = np.transpose(o, op[1])
        elif op[0] == "reshape":
            o = np.reshape(o, op[1])
    return o
