"""RefSem: the loop-notation semantics of einx descriptions, interpreted directly on the structured
description (vlib/desc.py). Shares no code with einx. Works on object arrays whose elements are z3 terms
or Python numbers (so the same code gives the symbolic reference and the concrete replay oracle).
"""

import itertools

import numpy as np

from . import elem
from .desc import Ax, Num, Grp, Cat, Brk, key_of, leaves, item_size, dims, shape


class IllFormed(Exception):
    """The structured description is outside what the loop notation defines (generator bug)."""


# ---------------------------------------------------------------------------------------------------
# concatenation variants


def cat_paths(expr):
    """Paths (tuples of child indices) of all Cat nodes in DFS order of appearance."""
    out = []

    def rec(items, path):
        for i, it in enumerate(items):
            p = path + (i,)
            if isinstance(it, Cat):
                out.append((p, it))
                # operands of a concatenation cannot contain further concatenations (einx syntax)
            elif isinstance(it, (Grp, Brk)):
                rec(it.items, p)

    rec(expr, ())
    return out


def variants(expr):
    """All choices {cat path -> part index}, lexicographic in order of appearance (first concatenation
    varies slowest)."""
    cps = cat_paths(expr)
    if not cps:
        return [{}]
    return [dict(zip([p for p, _ in cps], combo)) for combo in itertools.product(*[range(len(c.parts)) for _, c in cps])]


def active_leaves(expr, choice):
    """(leaf, bracketed) of the sub-tensor selected by `choice`, in order of appearance."""
    out = []

    def rec(items, path, in_brk):
        for i, it in enumerate(items):
            p = path + (i,)
            if isinstance(it, (Ax, Num)):
                out.append((it, in_brk))
            elif isinstance(it, Grp):
                rec(it.items, p, in_brk)
            elif isinstance(it, Brk):
                rec(it.items, p, True)
            elif isinstance(it, Cat):
                k = choice[p]
                rec((it.parts[k],), p + (("part", k),), in_brk)
            else:
                raise TypeError(it)

    rec(expr, (), False)
    return out


# ---------------------------------------------------------------------------------------------------
# index arithmetic


def index_of(expr, env, choice=None):
    """Index tuple into the tensor described by `expr` for the loop-variable assignment `env`
    (key -> int). Axes of length 1 that are not assigned use index 0."""
    choice = choice or {}

    def idx(it, path):
        if isinstance(it, (Ax, Num)):
            k = key_of(it)
            if k in env:
                v = env[k]
                if not (0 <= v < it.size):
                    raise IllFormed(f"loop index {v} out of range for {it}")
                return v
            if it.size == 1:
                return 0
            raise IllFormed(f"axis {it} is not a loop variable here")
        if isinstance(it, Grp):
            acc = 0
            for j, d in _dims_paths(it.items, path):
                acc = acc * item_size(d) + idx(d, j)
            return acc
        if isinstance(it, Cat):
            k = choice[path]
            off = sum(item_size(p) for p in it.parts[:k])
            return off + idx(it.parts[k], path + (("part", k),))
        raise TypeError(it)

    return tuple(idx(d, p) for p, d in _dims_paths(expr, ()))


def _dims_paths(items, path):
    """(path, dim) for the dimensions of an item list; brackets are transparent."""
    out = []
    for i, it in enumerate(items):
        p = path + (i,)
        if isinstance(it, Brk):
            out.extend(_dims_paths(it.items, p))
        else:
            out.append((p, it))
    return out


def _uniq(seq):
    seen, out = set(), []
    for s in seq:
        if s not in seen:
            seen.add(s)
            out.append(s)
    return out


def loop_leaves(lv, bracketed):
    """Ordered unique (key, size) of the leaves with the given bracket flag."""
    out, seen = [], set()
    for l, b in lv:
        if b == bracketed:
            k = key_of(l)
            if k in seen:
                continue
            seen.add(k)
            out.append((k, l.size))
    return out


def empty(shp):
    return np.empty(tuple(shp), dtype=object)


# ---------------------------------------------------------------------------------------------------
# sub-tensor extraction / insertion


def gather(expr, arr, env, choice=None):
    """Sub-tensor of `arr` at loop assignment `env`: one dimension per bracketed leaf, in order of
    appearance. Returns an object array (0-d when nothing is bracketed)."""
    lv = active_leaves(expr, choice or {})
    bl = loop_leaves(lv, True)
    sub = empty([s for _, s in bl])
    for combo in itertools.product(*[range(s) for _, s in bl]):
        env2 = dict(env)
        env2.update({k: c for (k, _), c in zip(bl, combo)})
        sub[combo] = arr[index_of(expr, env2, choice)]
    return sub


def scatter(expr, arr, env, sub, choice=None):
    lv = active_leaves(expr, choice or {})
    bl = loop_leaves(lv, True)
    sub = np.asarray(sub, dtype=object) if not isinstance(sub, np.ndarray) else sub
    if tuple(sub.shape) != tuple(s for _, s in bl):
        raise IllFormed(f"elementary result shape {sub.shape} != bracket shape {[s for _, s in bl]}")
    for combo in itertools.product(*[range(s) for _, s in bl]):
        env2 = dict(env)
        env2.update({k: c for (k, _), c in zip(bl, combo)})
        arr[index_of(expr, env2, choice)] = sub[combo]


def as0(x):
    a = empty(())
    a[()] = x
    return a


# ---------------------------------------------------------------------------------------------------
# generic vectorised application (no concatenation)


def run(ins, outs, elementary):
    """ins: [(expr, array)], outs: [expr]; elementary(*subs) -> list of sub-results (one per output).
    One loop per un-bracketed axis of the outputs."""
    loops = []
    for e in outs:
        loops.extend(loop_leaves(active_leaves(e, {}), False))
    # sizes must agree between all occurrences
    sizes = {}
    for e in [x for x, _ in ins] + list(outs):
        for l, _ in active_leaves(e, {}):
            k = key_of(l)
            if sizes.setdefault(k, l.size) != l.size:
                raise IllFormed(f"axis {k} has two sizes")
    loops = _uniq(loops)
    results = [empty(shape(e)) for e in outs]
    for combo in itertools.product(*[range(s) for _, s in loops]):
        env = {k: c for (k, _), c in zip(loops, combo)}
        subs = [gather(e, a, env) for e, a in ins]
        res = elementary(*subs)
        for e, r, rs in zip(outs, results, res):
            scatter(e, r, env, rs)
    return results


# ---------------------------------------------------------------------------------------------------
# operation families


def op_id(ins, outs):
    """einx.id: i-th (concatenation-free) sub-input is copied to the i-th sub-output."""
    sub_in = [(e, a, ch) for e, a in ins for ch in variants(e)]
    sub_out = [(oi, e, ch) for oi, e in enumerate(outs) for ch in variants(e)]
    if len(sub_in) != len(sub_out):
        raise IllFormed("number of sub-inputs and sub-outputs differ")
    results = [empty(shape(e)) for e in outs]
    for (ei, ai, ci), (oi, eo, co) in zip(sub_in, sub_out):
        if any(b for _, b in active_leaves(ei, ci)) or any(b for _, b in active_leaves(eo, co)):
            raise IllFormed("brackets in id")
        lo = loop_leaves(active_leaves(eo, co), False)
        okeys = {k for k, _ in lo}
        for l, _ in active_leaves(ei, ci):
            if key_of(l) not in okeys and l.size != 1:
                raise IllFormed(f"input axis {l} missing in output")
        for combo in itertools.product(*[range(s) for _, s in lo]):
            env = {k: c for (k, _), c in zip(lo, combo)}
            results[oi][index_of(eo, env, co)] = ai[index_of(ei, env, ci)]
    return results


ELEMENTWISE = {
    "add": lambda *xs: elem.fold(elem.add, xs),
    "subtract": elem.sub,
    "multiply": lambda *xs: elem.fold(elem.mul, xs),
    "true_divide": elem.truediv,
    "divide": elem.truediv,
    "floor_divide": elem.floordiv,
    "logical_and": lambda *xs: elem.fold(elem.logical_and, xs),
    "logical_or": lambda *xs: elem.fold(elem.logical_or, xs),
    "where": elem.ite,
    "maximum": lambda *xs: elem.fold(elem.maximum, xs),
    "minimum": lambda *xs: elem.fold(elem.minimum, xs),
    "less": elem.lt,
    "less_equal": elem.le,
    "greater": elem.gt,
    "greater_equal": elem.ge,
    "equal": elem.eq,
    "not_equal": elem.ne,
    # n-ary logaddexp is the left fold of the binary one ("any number of scalars")
    "logaddexp": lambda *xs: elem.fold(lambda a, b: elem.logaddexp(a, b), xs),
}

REDUCE = {
    "sum": elem.lane_sum,
    "mean": elem.lane_mean,
    "var": elem.lane_var,
    "std": elem.lane_std,
    "prod": elem.lane_prod,
    "count_nonzero": elem.lane_count_nonzero,
    "all": elem.lane_all,
    "any": elem.lane_any,
    "min": elem.lane_min,
    "max": elem.lane_max,
    "logsumexp": elem.lane_logsumexp,
}


def op_elementwise(name, ins, outs):
    f = ELEMENTWISE[name]

    def el(*subs):
        for s in subs:
            if s.shape != ():
                raise IllFormed("brackets in scalar op")
        return [as0(f(*[s[()] for s in subs]))]

    return run(ins, outs, el)


def op_reduce(name, ins, outs, lane_fn=None):
    f = lane_fn or REDUCE[name]

    def el(sub):
        return [as0(f(list(sub.flat)))]

    return run(ins, outs, el)


def op_dot(ins, outs):
    """Sum over all bracketed (contracted) axes of the product of the inputs' elements."""
    bl = []
    for e, _ in ins:
        bl.extend(loop_leaves(active_leaves(e, {}), True))
    bl = _uniq(bl)
    loops = _uniq([x for e in outs for x in loop_leaves(active_leaves(e, {}), False)])
    (eo,) = outs
    res = empty(shape(eo))
    for combo in itertools.product(*[range(s) for _, s in loops]):
        env = {k: c for (k, _), c in zip(loops, combo)}
        terms = []
        for bc in itertools.product(*[range(s) for _, s in bl]):
            env2 = dict(env)
            env2.update({k: c for (k, _), c in zip(bl, bc)})
            terms.append(elem.fold(elem.mul, [a[index_of(e, env2)] for e, a in ins]))
        res[index_of(eo, env)] = elem.lane_sum(terms)
    return [res]


def select_nd(sub, coords):
    """sub[coords] for possibly symbolic integer coordinates (row-major ite chain)."""
    coords = [elem.arith(c) for c in coords]
    if len(coords) != sub.ndim:
        raise IllFormed("number of coordinates != number of bracketed tensor axes")
    if not any(elem.is_sym(c) for c in coords):
        return sub[tuple(int(c) for c in coords)]
    acc = None
    for pos in reversed(list(np.ndindex(*sub.shape))):
        if acc is None:
            acc = sub[pos]
        else:
            cond = elem.fold(elem.logical_and, [elem.eq(c, p) for c, p in zip(coords, pos)])
            acc = elem.ite(cond, sub[pos], acc)
    return acc


def coords_of(subs):
    cs = []
    for s in subs:
        if s.ndim == 0:
            cs.append(s[()])
        elif s.ndim == 1:
            cs.extend(list(s))
        else:
            raise IllFormed("coordinate sub-tensor must be scalar or vector")
    return cs


def op_get_at(ins, outs):
    def el(t, *cs):
        return [as0(select_nd(t, coords_of(cs)))]

    return run(ins, outs, el)


def _lanes(fn):
    """Apply list->list `fn` to the row-major flattening of a sub-tensor."""

    def el(sub):
        res = fn(list(sub.flat))
        out = empty(sub.shape)
        for pos, v in zip(np.ndindex(*sub.shape), res):
            out[pos] = v
        return [out]

    return el


def op_preserve(name, ins, outs, **kw):
    if name == "flip":

        def el(sub):
            out = empty(sub.shape)
            for pos in np.ndindex(*sub.shape):
                out[pos] = sub[tuple(s - 1 - p for p, s in zip(pos, sub.shape))]
            return [out]

    elif name == "roll":
        shift = kw["shift"]

        def el(sub):
            sh = shift
            if isinstance(sh, (int, np.integer)):
                sh = (int(sh),) * sub.ndim
            sh = tuple(int(s) for s in sh)
            if len(sh) == 1 and sub.ndim != 1:
                sh = sh * sub.ndim
            if len(sh) != sub.ndim:
                raise IllFormed("shift arity")
            out = empty(sub.shape)
            for pos in np.ndindex(*sub.shape):
                out[tuple((p + s) % n for p, s, n in zip(pos, sh, sub.shape))] = sub[pos]
            return [out]

    elif name == "sort":
        el = _lanes(elem.lane_sort)
    elif name == "argsort":
        el = _lanes(elem.lane_argsort)
    elif name == "softmax":
        el = _lanes(elem.lane_softmax)
    elif name == "log_softmax":
        el = _lanes(elem.lane_log_softmax)
    else:
        raise KeyError(name)
    return run(ins, outs, el)


def argfind_obligations(name, ins, outs, out_arr):
    """For argmax/argmin the loop notation fixes *which value* is addressed, not the tie-break. Returns
    a list of (coordinate terms, sub-tensor, extremum term): the obligation is 'coordinates in range and
    sub[coords] == extremum'."""
    (ei, ai), (eo,) = ins[0], outs
    loops = loop_leaves(active_leaves(eo, {}), False)
    obl = []
    for combo in itertools.product(*[range(s) for _, s in loops]):
        env = {k: c for (k, _), c in zip(loops, combo)}
        sub = gather(ei, ai, env)
        co = gather(eo, out_arr, env)
        coords = coords_of([co])
        ext = (elem.lane_max if name == "argmax" else elem.lane_min)(list(sub.flat))
        obl.append((coords, sub, ext, env))
    return obl


def argfind_formula(obl):
    """z3 formula: every obligation holds."""
    import z3

    parts = []
    for coords, sub, ext, _ in obl:
        rng = [elem.z(elem.logical_and(elem.ge(c, 0), elem.lt(c, n))) for c, n in zip(coords, sub.shape)]
        parts.append(z3.And(*rng, elem.z(elem.eq(select_nd(sub, coords), ext))))
    return z3.And(*parts) if parts else z3.BoolVal(True)


def argfind_concrete_ok(obl):
    for coords, sub, ext, _ in obl:
        cs = [int(c) for c in coords]
        if any(not (0 <= c < n) for c, n in zip(cs, sub.shape)):
            return False
        if sub[tuple(cs)] != ext:
            return False
    return True


# ---------------------------------------------------------------------------------------------------
# indexed updates (C14): stated per target position, straight from the property text


def update_slots(ins, out):
    """Enumerate all update slots U = index combinations of the un-bracketed axes of coordinate and
    update expressions (and of the target's vectorised axes). For each slot: (env, address terms into the
    bracketed target axes, update value term)."""
    (et, at) = ins[0]
    coords = ins[1:-1]
    (eu, au) = ins[-1]
    loops = []
    for e, _ in list(coords) + [(eu, au), (et, at)]:
        loops.extend(loop_leaves(active_leaves(e, {}), False))
    loops = _uniq(loops)
    slots = []
    for combo in itertools.product(*[range(s) for _, s in loops]):
        env = {k: c for (k, _), c in zip(loops, combo)}
        cs = coords_of([gather(e, a, env) for e, a in coords])
        uval = gather(eu, au, env)
        if uval.shape != ():
            raise IllFormed("update expression must not have brackets")
        slots.append((env, cs, uval[()]))
    return slots


def update_target_positions(et):
    """For each full index of the target: (env of its un-bracketed axes, tuple of bracket indices)."""
    lv = active_leaves(et, {})
    ul = loop_leaves(lv, False)
    bl = loop_leaves(lv, True)
    out = []
    for uc in itertools.product(*[range(s) for _, s in ul]):
        for bc in itertools.product(*[range(s) for _, s in bl]):
            env = {k: c for (k, _), c in zip(ul, uc)}
            env2 = dict(env)
            env2.update({k: c for (k, _), c in zip(bl, bc)})
            out.append((env, bc, index_of(et, env2)))
    return out, [s for _, s in bl]


def update_formula(name, ins, out_expr, out_arr):
    """z3 formula 'out is a correct result of name(ins)' (see property C14)."""
    import z3

    (et, at) = ins[0]
    slots = update_slots(ins, out_expr)
    tpos, bshape = update_target_positions(et)
    # the output expression has the same bracketed axes; positions are matched through the loop
    # variables so that a permuted output expression is handled
    parts = []
    for env, bc, tidx in tpos:
        lv = active_leaves(out_expr, {})
        bl = loop_leaves(lv, True)
        et_bl = loop_leaves(active_leaves(et, {}), True)
        env2 = dict(env)
        env2.update({k: c for (k, _), c in zip(et_bl, bc)})
        oidx = index_of(out_expr, env2)
        o = out_arr[oidx]
        t = at[tidx]
        hits = []
        for senv, cs, uval in slots:
            # slot addresses this position iff it agrees on the target's vectorised axes and its
            # coordinates equal the bracket index
            if any(senv.get(k) != v for k, v in env.items() if k in senv):
                continue
            if len(cs) != len(bc):
                raise IllFormed("coordinate count")
            cond = elem.fold(elem.logical_and, [elem.eq(c, b) for c, b in zip(cs, bc)], True)
            hits.append((cond, uval))
        if name in ("add_at", "subtract_at"):
            tot = elem.lane_sum([elem.ite(c, u, 0) for c, u in hits]) if hits else 0
            want = elem.add(t, tot) if name == "add_at" else elem.sub(t, tot)
            parts.append(elem.z(elem.eq(o, want)))
        elif name == "set_at":
            none = elem.fold(elem.logical_and, [elem.logical_not(c) for c, _ in hits], True)
            some = elem.fold(elem.logical_or, [elem.logical_and(c, elem.eq(o, u)) for c, u in hits], False)
            parts.append(elem.z(elem.ite(none, elem.eq(o, t), some)))
        else:
            raise KeyError(name)
    return z3.And(*parts) if parts else z3.BoolVal(True)


def update_range_assumptions(ins):
    """Coordinates are assumed to address existing elements."""
    import z3

    (et, _) = ins[0]
    bshape = [s for _, s in loop_leaves(active_leaves(et, {}), True)]
    slots = update_slots(ins, None)
    cons = []
    for _, cs, _ in slots:
        for c, n in zip(cs, bshape):
            if elem.is_sym(c):
                cons.append(z3.And(c >= 0, c < n))
    return cons
