"""The program family: deterministic (seeded) generators of well-formed einx calls per operation family.

A *case* is a plain dict (picklable):
  op       operation name in einx.*
  family   id | elementwise | reduce | dot | get_at | preserve | argfind | update
  desc     the description string handed to einx (may use a documented shorthand)
  ins      tuple of structured input expressions (explicit brackets: the semantics RefSem interprets)
  outs     tuple of structured output expressions
  kwargs   axis-size keyword arguments
  opts     other keyword arguments (shift=..., keepdims=...)
  kinds    per input: 'int' | 'bool' | 'coord'
  tags     list of construct names the case exercises (for coverage accounting)
Only constructs the documentation defines are produced (see DESIGN.md §2.3).
"""

import itertools
import random

from .desc import Ax, Num, Grp, Cat, Brk, Ell, expand, show_expr, show_op, shape, leaves, key_of, item_size, dims

NAMES = ["a", "b", "c", "d", "e", "f"]

ELEMENTWISE_ARITY = {
    "add": (2, 3),
    "subtract": (2, 2),
    "multiply": (2, 3),
    "true_divide": (2, 2),
    "floor_divide": (2, 2),
    "divide": (2, 2),
    "logical_and": (2, 3),
    "logical_or": (2, 3),
    "where": (3, 3),
    "maximum": (2, 3),
    "minimum": (2, 3),
    "less": (2, 2),
    "less_equal": (2, 2),
    "greater": (2, 2),
    "greater_equal": (2, 2),
    "equal": (2, 2),
    "not_equal": (2, 2),
    "logaddexp": (2, 3),
}
REDUCE = ["sum", "mean", "var", "std", "prod", "count_nonzero", "all", "any", "min", "max", "logsumexp"]
PRESERVE = ["flip", "roll", "sort", "argsort", "softmax", "log_softmax"]
ARGFIND = ["argmax", "argmin"]
UPDATE = ["set_at", "add_at", "subtract_at"]


class Bounds:
    def __init__(self, tier="quick"):
        if tier == "thorough":
            self.sizes = [1, 2, 3, 4]
            self.max_axes = 5
            self.max_elems = 256
        else:
            self.sizes = [1, 2, 3]
            self.max_axes = 4
            self.max_elems = 96

    def as_dict(self):
        return {"axis_lengths": self.sizes, "max_atomic_axes_per_tensor": self.max_axes, "max_elements_per_tensor": self.max_elems}


# ---------------------------------------------------------------------------------------------------
# sizes and keyword arguments


def solve_needed_kwargs(ins, known_shape_flags=None):
    """Which named axes cannot be derived from the input shapes by substituting known values one
    flattened / concatenated axis at a time. `ins` are *expanded* expressions. Returns set of names."""
    known = set()

    def size_known(it):
        if isinstance(it, Ax):
            return it.name in known
        if isinstance(it, Num):
            return True
        if isinstance(it, Grp):
            return all(size_known(d) for d in dims(it.items))
        if isinstance(it, Cat):
            return all(size_known(p) for p in it.parts)
        raise TypeError(it)

    def learn(it):
        """The total size of `it` is known."""
        changed = False
        if isinstance(it, Ax):
            if it.name not in known:
                known.add(it.name)
                changed = True
        elif isinstance(it, Grp):
            ds = dims(it.items)
            unk = [d for d in ds if not size_known(d)]
            if len(unk) == 1:
                changed |= learn(unk[0])
        elif isinstance(it, Cat):
            unk = [p for p in it.parts if not size_known(p)]
            if len(unk) == 1:
                changed |= learn(unk[0])
        return changed

    flags = known_shape_flags or [True] * len(ins)
    while True:
        ch = False
        for e, f in zip(ins, flags):
            if not f:
                continue
            for d in dims(e):
                ch |= learn(d)
        if not ch:
            break
    return known


def all_axes(exprs):
    out = {}
    for e in exprs:
        for l, _ in leaves(e):
            if isinstance(l, Ax):
                out[l.name] = l.size
    return out


def make_kwargs(rng, ins, outs, known_flags=None, extra_prob=0.3):
    """Keyword sizes: everything not derivable from the input shapes, plus (sometimes) redundant ones.
    Ellipsis axes `s.0, s.1` are passed as s=(..) (or a scalar when all repetitions agree)."""
    ei = [expand(e) for e in ins]
    eo = [expand(e) for e in outs]
    known = solve_needed_kwargs(ei, known_flags)
    axes = all_axes(ei + eo)
    need = {n for n in axes if n not in known}
    for n in axes:
        if n not in need and rng.random() < extra_prob * 0.3:
            need.add(n)
    kw = {}
    # ellipsis repetition counts: derivable only from a tensor rank (ellipsis at the top level of an
    # input, at most one undetermined ellipsis per tensor); otherwise a per-repetition tuple is needed
    ell_known = set()
    ells = {}

    def top_ells(items, top=True):
        out = []
        for it in items:
            if isinstance(it, Ell):
                b = ell_base(it)
                ells[b] = it
                if top:
                    out.append(b)
                top_ells((it.item,), False)
            elif isinstance(it, Brk):
                out.extend(top_ells(it.items, top))
            elif isinstance(it, Grp):
                top_ells(it.items, False)
            elif isinstance(it, Cat):
                top_ells(it.parts, False)
        return out

    flags = known_flags or [True] * len(ins)
    tops = [top_ells(e) for e in ins]
    for e in outs:
        top_ells(e)
    while True:
        ch = False
        for t, f in zip(tops, flags):
            unk = {b for b in t if b not in ell_known}
            if f and len(unk) == 1:
                ell_known |= unk
                ch = True
        if not ch:
            break
    force_tuple = {b for b in ells if b not in ell_known}
    for b in force_tuple:
        if ells[b].anon:
            raise ValueError("anonymous ellipsis with underivable repetition count")
        kw[b] = tuple(dict(r)[b] for r in ells[b].rep_sizes)
        for nm in ell_names(ells[b]):
            if nm != b:
                kw[nm] = tuple(dict(r)[nm] for r in ells[b].rep_sizes)
    groups = {}
    for n in sorted(axes):
        if "." in n:
            base, idx = n.split(".")
            groups.setdefault(base, {})[int(idx)] = axes[n]
    done = set()
    anon_bases = {nm for b, e in ells.items() if e.anon for nm in ell_names(e)}
    for n in sorted(need):
        if "." in n:
            base = n.split(".")[0]
            if base in done or base in kw or base in anon_bases:
                continue
            done.add(base)
            vals = [groups[base][i] for i in range(len(groups[base]))]
            if len(set(vals)) == 1 and rng.random() < 0.5:
                kw[base] = vals[0]
            else:
                kw[base] = tuple(vals)
        else:
            kw[n] = axes[n]
    return kw


def ell_names(ell):
    return [l.name for l, _ in leaves((ell.item,))if isinstance(l, Ax)]


def ell_base(ell):
    return ell_names(ell)[0]


# ---------------------------------------------------------------------------------------------------
# layouts


class Gen:
    def __init__(self, seed, tier="quick"):
        self.rng = random.Random(seed)
        self.b = Bounds(tier)

    # -- axis pools -----------------------------------------------------------------------------------
    def pool(self, n, force_equal=None, max_elems=None):
        """n named axes with sizes from the bounds; equal lengths on different axes in at least half of
        the pools, a length-1 axis in at least a quarter."""
        rng = self.rng
        max_elems = max_elems or self.b.max_elems
        for _ in range(100):
            names = rng.sample(NAMES, n)
            mode = rng.random()
            if mode < 0.5 and n >= 2:
                s = rng.choice([x for x in self.b.sizes if x > 1])
                sizes = [s] * n
                if rng.random() < 0.5:
                    sizes[rng.randrange(n)] = rng.choice(self.b.sizes)
            else:
                sizes = [rng.choice(self.b.sizes) for _ in range(n)]
            if rng.random() < 0.25 and n >= 2:
                sizes[rng.randrange(n)] = 1
            tot = 1
            for s in sizes:
                tot *= s
            if tot <= max_elems:
                return [Ax(nm, s) for nm, s in zip(names, sizes)]
        return [Ax(nm, 1 + (i == 0)) for i, nm in enumerate(rng.sample(NAMES, n))]

    def layout(self, leaves_, group_prob=0.35, shuffle=True, ones=True, depth=2):
        """Arrange leaves into an expression: random order, random grouping of consecutive leaves into
        parentheses (nesting <= depth), sometimes an extra `1`."""
        rng = self.rng
        items = list(leaves_)
        if shuffle:
            rng.shuffle(items)
        items = self._group(items, group_prob, depth)
        if ones and rng.random() < 0.15:
            items.insert(rng.randrange(len(items) + 1), Num(1))
        return tuple(items)

    def _group(self, items, p, depth):
        rng = self.rng
        if depth == 0 or len(items) == 0:
            return list(items)
        out = []
        i = 0
        while i < len(items):
            if rng.random() < p:
                k = rng.randint(1, min(3, len(items) - i))
                inner = self._group(items[i : i + k], p * 0.5, depth - 1)
                if rng.random() < 0.1:
                    inner.insert(rng.randrange(len(inner) + 1), Num(1))
                out.append(Grp(tuple(inner)))
                i += k
            else:
                out.append(items[i])
                i += 1
        if rng.random() < 0.03:
            out.append(Grp(()))  # "()" : a flattened axis of no axes = length 1
        return out

    def bracket_layout(self, leaves_, marked, contiguous_prob=0.5, group_prob=0.3):
        """Layout where the leaves in `marked` are wrapped in brackets (jointly when adjacent and the
        coin says so, otherwise individually); groups may contain bracketed leaves."""
        rng = self.rng
        items = list(leaves_)
        rng.shuffle(items)
        return self.bracket_fixed(items, marked, contiguous_prob, group_prob)

    def bracket_fixed(self, items, marked, contiguous_prob=0.5, group_prob=0.3):
        rng = self.rng
        out = []
        i = 0
        while i < len(items):
            it = items[i]
            if it in marked:
                j = i + 1
                if rng.random() < contiguous_prob:
                    while j < len(items) and items[j] in marked:
                        j += 1
                out.append(Brk(tuple(items[i:j])))
                i = j
            else:
                out.append(it)
                i += 1
        # group consecutive top-level items (a group may mix bracketed and plain leaves)
        res = []
        i = 0
        while i < len(out):
            if rng.random() < group_prob:
                k = rng.randint(1, min(3, len(out) - i))
                res.append(Grp(tuple(out[i : i + k])))
                i += k
            else:
                res.append(out[i])
                i += 1
        if rng.random() < 0.1:
            res.insert(rng.randrange(len(res) + 1), Num(1))
        return tuple(res)


def render(ins, outs, form):
    """Print a structured operation in one of the documented forms."""
    from .desc import unbracket

    if form == "implicit-output":
        return show_op(ins)
    if form == "implicit-brackets":
        return show_op([unbracket(e) for e in ins], outs)
    return show_op(ins, outs)


def _case(op, family, desc, ins, outs, kwargs, opts=None, kinds=None, tags=()):
    form = "implicit-output" if "implicit-output" in tags else "implicit-brackets" if "implicit-brackets" in tags else "explicit"
    assert render(ins, outs, form) == desc, (desc, render(ins, outs, form))
    return {
        "form": form,
        "op": op,
        "family": family,
        "desc": desc,
        "ins": tuple(ins),
        "outs": tuple(outs),
        "kwargs": dict(kwargs),
        "opts": dict(opts or {}),
        "kinds": list(kinds or ["int"] * len(ins)),
        "tags": sorted(set(tags)),
    }


UINT8_UPDATES = False  # opt-in (C14): update tensors of dtype uint8 (8-bit bit-vector elements)
SAME_NAME_BRACKETS = False  # opt-in per check (checks that re-render descriptions from the structure keep it off)


def same_name_brackets(case, baxes, rng, prob=0.3):
    """Two bracketed (indexed) target axes of equal length may carry the SAME name ('b [h h] c'): they stay two
    independent indexed axes. The structured description keeps distinct names (so RefSem indexes them
    independently); only the text and the size keywords given to einx use one name."""
    import re

    same = [(a, b) for i, a in enumerate(baxes) for b in baxes[i + 1 :] if a.size == b.size]
    if not SAME_NAME_BRACKETS or not same or rng.random() >= prob:
        return case
    a, b = rng.choice(same)
    case = dict(case)
    case["desc"] = re.sub(rf"\b{b.name}\b", a.name, case["desc"])
    kw = dict(case["kwargs"])
    if b.name in kw:
        kw.setdefault(a.name, kw.pop(b.name))
        kw.pop(b.name, None)
    case["kwargs"] = kw
    case["tags"] = sorted(set(case["tags"]) | {"same-name-bracket-axes"})
    case["printed_alias"] = {b.name: a.name}
    return case


def tags_of(exprs):
    t = set()

    def rec(items, depth):
        for it in items:
            if isinstance(it, Grp):
                t.add("group" if depth == 0 else "nested-group")
                if len(it.items) == 0:
                    t.add("empty-group")
                rec(it.items, depth + 1)
            elif isinstance(it, Brk):
                t.add("bracket")
                rec(it.items, depth)
            elif isinstance(it, Cat):
                t.add("concat")
                rec(it.parts, depth + 1)
            elif isinstance(it, Ell):
                t.add("ellipsis-anon" if it.anon else "ellipsis")
                if it.n == 0:
                    t.add("ellipsis-0")
                rec((it.item,), depth)
            elif isinstance(it, Num):
                t.add("number")
            elif isinstance(it, Ax):
                if it.size == 1:
                    t.add("len1")

    for e in exprs:
        rec(e, 0)
        nm = [l.name for l, _ in leaves(expand(e)) if isinstance(l, Ax)]
        if len(nm) != len(set(nm)):
            t.add("repeated-name")
    szs = {}
    for e in exprs:
        for l, _ in leaves(expand(e)):
            if isinstance(l, Ax) and l.size > 1:
                szs.setdefault(l.size, set()).add(l.name)
    if any(len(v) > 1 for v in szs.values()):
        t.add("equal-lengths")
    return t


# ---------------------------------------------------------------------------------------------------
# ellipsis helpers


def make_ell(g, base, n, anon=False, wrap=None, sizes=None):
    """Ellipsis over axis `base` (optionally wrapped: 'grp2' -> (base x)..., 'brk' -> [base]...)."""
    rng = g.rng
    reps = []
    for r in range(n):
        reps.append(((base, sizes[r] if sizes else rng.choice(g.b.sizes)),))
    return Ell(Ax(base, 0), n, tuple(reps), anon=anon)


# ---------------------------------------------------------------------------------------------------
# families


def gen_id(g):
    """Rearrangements: permutation, (un)grouping, squeeze, broadcast, diagonal, concat/split, ellipsis."""
    rng = g.rng
    mode = rng.random()
    if mode < 0.03:
        return gen_id_split_concat(g)
    if mode < 0.06:
        return gen_id_concat2(g)
    if mode < 0.18:
        return gen_id_concat(g)
    if mode < 0.33:
        return gen_id_ellipsis(g)
    if mode < 0.45:
        return gen_id_multi(g)
    n = rng.randint(1, g.b.max_axes)
    pool = g.pool(n)
    in_leaves = list(pool)
    tags = set()
    # diagonal: repeat one name in the input
    if rng.random() < 0.3 and n >= 1:
        rep = rng.choice(pool)
        cnt = 1 if rng.random() < 0.8 else 2
        tot = 1
        for l in in_leaves:
            tot *= l.size
        if tot * rep.size**cnt <= g.b.max_elems:
            for _ in range(cnt):
                in_leaves.insert(rng.randrange(len(in_leaves) + 1), rep)
            tags.add("diagonal")
    e_in = g.layout(in_leaves, shuffle="diagonal" not in tags)
    out_leaves = [l for l in pool if not (l.size == 1 and rng.random() < 0.5)]
    # broadcast: new axes in the output
    if rng.random() < 0.3:
        tot = 1
        for l in out_leaves:
            tot *= l.size
        free = [nm for nm in NAMES if nm not in {l.name for l in pool}]
        if free:
            s = rng.choice(g.b.sizes)
            if tot * s <= g.b.max_elems:
                if rng.random() < 0.5:
                    out_leaves.append(Ax(rng.choice(free), s))
                else:
                    out_leaves.append(Num(s))
                tags.add("broadcast")
    e_out = g.layout(out_leaves)
    kw = make_kwargs(rng, [e_in], [e_out])
    desc = show_op([e_in], [e_out])
    op = "id"
    return _case(op, "id", desc, [e_in], [e_out], kw, tags=tags | tags_of([e_in, e_out]))


def gen_id_multi(g):
    """Several inputs mapped to several outputs (no concatenation)."""
    rng = g.rng
    k = rng.randint(2, 3)
    ins, outs = [], []
    table = {}
    for _ in range(k):
        pool = g.pool(rng.randint(0, 3), max_elems=24)
        # one size per name across all tensors of the call
        pool = [Ax(l.name, table.setdefault(l.name, l.size)) for l in pool]
        ins.append(g.layout(pool) if pool else ())
        outs.append(g.layout(pool) if pool else ())
    kw = make_kwargs(rng, ins, outs)
    return _case("id", "id", show_op(ins, outs), ins, outs, kw, tags={"multi-io"} | tags_of(ins + outs))


def gen_id_split_concat(g):
    """One call that both splits and concatenates: 'a (b + c), a d -> b a, a (c + d)': one part of a split goes to an
    output of its own (possibly transposed / with a new axis), another part is concatenated with a second input."""
    rng = g.rng
    a = Ax("a", rng.choice([1, 2, 3]))
    b, c, d = (Ax(n, rng.choice([1, 2, 2, 3])) for n in "bcd")
    k = Ax("k", 2)
    if rng.random() < 0.5:
        x_in = (a, Cat((b, c)))
        y_in = (a, d)
        first = rng.choice([(b, a), (a, b), (k, a, b), (Grp((a, b)),)])
        second = (a, Cat((c, d)))
    else:
        x_in = (Cat((b, c)), a)
        y_in = (d, a)
        first = rng.choice([(a, b), (b, a), (b, k, a)])
        second = (Cat((c, d)), a)
    ins = [x_in, y_in]
    outs = [first, second]  # einx pairs decomposed blocks by position: b-part first, then c and d
    kw = {"b": b.size}
    if any(isinstance(x, Ax) and x.name == "k" for x in first):
        kw["k"] = 2
    return _case("id", "id", show_op(ins, outs), ins, outs, kw, tags={"split-and-concat"} | tags_of(ins + outs))


def gen_id_concat(g):
    """Concatenate / split along one composed axis, with shared axes around it."""
    rng = g.rng
    nparts = rng.randint(2, 3)
    shared = g.pool(rng.randint(0, 2), max_elems=8)
    used = {l.name for l in shared}
    free = [nm for nm in NAMES if nm not in used]
    rng.shuffle(free)
    parts = []
    for i in range(nparts):
        r = rng.random()
        if r < 0.55:
            parts.append(Ax(free.pop(), rng.choice(g.b.sizes)))
        elif r < 0.75:
            parts.append(Num(rng.choice([1, 1, 2])))
        else:
            x, y = Ax(free.pop(), rng.choice([1, 2])), Ax(free.pop(), rng.choice([1, 2]))
            parts.append(Grp((x, y)))
    cat = Cat(tuple(parts))
    direction = rng.choice(["concat", "split", "both"])

    def flat_expr(part):
        """Expression of one part's own tensor: shared axes around the part's axes."""
        if isinstance(part, Grp):
            core = list(part.items) if rng.random() < 0.5 else [part]
        else:
            core = [part]
        return core

    def with_shared(core, order):
        items = list(order)
        pos = items.index(None)
        items[pos : pos + 1] = core
        return tuple(items)

    order_cat = list(shared) + [None]
    rng.shuffle(order_cat)
    e_cat = with_shared([cat] if rng.random() < 0.8 or not shared else [Grp((cat,) + ())], order_cat)
    if rng.random() < 0.2 and shared:
        # concatenated axis inside a flattened axis together with a shared axis
        sh = shared[0]
        rest = [x for x in order_cat if x is not sh]
        items = []
        for x in rest:
            items.append(Grp((cat, sh)) if x is None else x)
        e_cat = tuple(items)
    singles = []
    for p in parts:
        if isinstance(p, Num):
            # a numeric part on the other side is its own anonymous axis: broadcast when building,
            # dropped when splitting is not expressible -> build direction only
            singles.append(None)
        else:
            order = list(shared) + [None]
            rng.shuffle(order)
            singles.append(with_shared(flat_expr(p), order))
    has_num = any(s is None for s in singles)
    if has_num:
        direction = "concat"
    if direction == "concat":
        ins = []
        for p, s in zip(parts, singles):
            if s is None:
                # supply the numeric block from a tensor with a `1`-free expression: "c, 1 -> (c + 1)":
                order = list(shared) + [None]
                rng.shuffle(order)
                if p.size == 1 and rng.random() < 0.5:
                    ins.append(with_shared([Num(1)], order))
                else:
                    # broadcast block: tensor lacks the block axis entirely
                    ins.append(tuple(x for x in order if x is not None))
            else:
                ins.append(s)
        outs = [e_cat]
    elif direction == "split":
        ins = [e_cat]
        outs = singles
    else:
        # split and re-concatenate in a different arrangement
        ins = [e_cat]
        order2 = list(shared) + [None]
        rng.shuffle(order2)
        outs = [with_shared([cat], order2)]
    kw = make_kwargs(rng, ins, outs)
    return _case("id", "id", show_op(ins, outs), ins, outs, kw, tags={"concat-" + direction} | tags_of(list(ins) + list(outs)))


def gen_id_concat2(g):
    """Block assembly / splitting with TWO concatenated axes in one tensor (np.block style):
    'a c, a d, b c, b d -> (a + b) (c + d)'. The sub-tensors are ordered lexicographically, the first
    concatenated axis varying slowest."""
    rng = g.rng
    names = rng.sample(NAMES, 4)
    sz = [rng.choice([1, 2, 3]) for _ in range(4)]
    if rng.random() < 0.5:
        sz = [rng.choice([2, 3])] * 4  # equal blocks: a mis-ordered assembly keeps every shape
    a, b, c, d = [Ax(n, s) for n, s in zip(names, sz)]
    rows, cols = [a, b], [c, d]
    extra = []
    if rng.random() < 0.3:
        free = [n for n in NAMES if n not in names]
        extra = [Ax(free[0], rng.choice([1, 2]))]
    blocks = []
    for r in rows:
        for c_ in cols:
            items = [r, c_] + extra
            if rng.random() < 0.3:
                rng.shuffle(items)
            blocks.append(tuple(items))
    big = [Cat((a, b)), Cat((c, d))] + extra
    if rng.random() < 0.3:
        big = [big[1], big[0]] + extra
        blocks = [blocks[0], blocks[2], blocks[1], blocks[3]]  # first concatenated axis of `big` varies slowest
    big = tuple(big)
    direction = rng.choice(["assemble", "split", "roundtrip"])
    if direction == "assemble":
        ins, outs = blocks, [big]
    elif direction == "split":
        ins, outs = [big], blocks
    else:
        ins, outs = [big], [tuple(reversed(big[:2])) + tuple(extra)]
        # re-assembled with the two concatenated axes exchanged: sub-tensors pair up in lexicographic order
        # of each side, so this is only the identity up to the order of blocks -> keep it simple: same order
        outs = [big]
    kw = make_kwargs(rng, ins, outs)
    return _case("id", "id", show_op(ins, outs), ins, outs, kw, tags={"concat2-" + direction} | tags_of(list(ins) + list(outs)))


def gen_id_ellipsis(g):
    rng = g.rng
    n = rng.choice([0, 1, 2, 2, 3])
    sizes = [rng.choice(g.b.sizes) for _ in range(n)]
    tot = 1
    for s in sizes:
        tot *= s
    others = g.pool(rng.randint(0, 2), max_elems=max(1, g.b.max_elems // max(tot, 1) // 2))
    base = rng.choice([nm for nm in ["s", "t"]])
    anon = rng.random() < 0.3
    form = rng.choice(["plain", "plain", "grp-out", "grp-in", "pair", "pair-equal-scalars"])
    if form == "pair-equal-scalars":
        # '(s ds)... (c d) -> s... ds... c d' with the SAME scalar given for ds (an axis under the ellipsis: one
        # number stands for every repetition) and for d (an ordinary axis)
        n = rng.choice([1, 2, 2, 3])
        k = rng.choice([2, 3])
        sizes = [rng.choice([1, 2]) for _ in range(n)]
        c = Ax("c", rng.choice([1, 2, 3]))
        d = Ax("d", k)
        reps2 = tuple(((base, s_), ("d" + base, k)) for s_ in sizes)
        ell_in = Ell(Grp((Ax(base, 0), Ax("d" + base, 0))), n, reps2)
        e1 = Ell(Ax(base, 0), n, tuple(((base, s_),) for s_ in sizes))
        e2 = Ell(Ax("d" + base, 0), n, tuple((("d" + base, k),) for _ in sizes))
        in_items = [ell_in, Grp((c, d))]
        if rng.random() < 0.5:
            in_items.reverse()
        out_items = [e1, e2, c, d]
        rng.shuffle(out_items)
        e_in, e_out = tuple(in_items), tuple(out_items)
        kw = {"d" + base: k, "d": k}
        return _case("id", "id", show_op([e_in], [e_out]), [e_in], [e_out], kw, tags={"ellipsis-pair", "equal-scalars-at-different-depths"} | tags_of([e_in, e_out]))
    reps = tuple(((base, s),) for s in sizes)
    ell = Ell(Ax(base, 0), n, reps, anon=anon)
    tags = set()
    if form == "pair" and not anon:
        # (s ds)... -> s... ds...   or   (s ds)... -> (s...) ds...
        ds_sizes = [rng.choice([1, 2]) for _ in range(n)]
        reps2 = tuple(((base, s), ("d" + base, d)) for s, d in zip(sizes, ds_sizes))
        ell_in = Ell(Grp((Ax(base, 0), Ax("d" + base, 0))), n, reps2)
        e1 = Ell(Ax(base, 0), n, reps)
        e2 = Ell(Ax("d" + base, 0), n, tuple((("d" + base, d),) for d in ds_sizes))
        o1 = Grp((e1,)) if rng.random() < 0.5 else e1
        in_items = [ell_in] + list(others)
        out_items = [o1, e2] + list(others)
        rng.shuffle(out_items)
        e_in, e_out = tuple(in_items), tuple(out_items)
        tags.add("ellipsis-pair")
    else:
        in_items = list(others)
        pos = rng.randrange(len(in_items) + 1)
        in_items.insert(pos, Grp((ell,)) if form == "grp-in" else ell)
        out_items = list(others)
        rng.shuffle(out_items)
        pos = rng.randrange(len(out_items) + 1)
        out_items.insert(pos, Grp((ell,)) if form == "grp-out" else ell)
        e_in, e_out = tuple(in_items), tuple(out_items)
    kw = make_kwargs(rng, [e_in], [e_out])
    return _case("id", "id", show_op([e_in], [e_out]), [e_in], [e_out], kw, tags=tags | tags_of([e_in, e_out]))


def gen_elementwise(g, op=None):
    rng = g.rng
    op = op or rng.choice(list(ELEMENTWISE_ARITY))
    lo, hi = ELEMENTWISE_ARITY[op]
    k = rng.randint(lo, hi)
    n = rng.randint(1, min(3, g.b.max_axes))
    pool = g.pool(n, max_elems=36)
    ins = []
    tags = set()
    for i in range(k):
        sub = [l for l in pool if rng.random() < 0.7]
        if i == 0 and rng.random() < 0.5:
            sub = list(pool)
        lv = list(sub)
        if lv and rng.random() < 0.1:
            lv.insert(rng.randrange(len(lv) + 1), rng.choice(lv))
            tags.add("diagonal")
        ins.append(g.layout(lv, group_prob=0.2) if lv else ())
    present = {l.name for e in ins for l, _ in leaves(e) if isinstance(l, Ax)}
    out_leaves = [l for l in pool if l.name in present or l.size != 1 or rng.random() < 0.5]
    out_leaves = [l for l in out_leaves if l.name in present or rng.random() < 0.5]
    # every non-unit input axis must be in the output
    for l in pool:
        if l.name in present and l not in out_leaves and l.size != 1:
            out_leaves.append(l)
    out_leaves = [l for l in out_leaves if not (l.size == 1 and l.name in present and rng.random() < 0.3)]
    e_out = g.layout(out_leaves, group_prob=0.2)
    kinds = ["int"] * k
    if op == "where":
        kinds[0] = "bool"
    if op in ("logical_and", "logical_or") and rng.random() < 0.5:
        kinds = ["bool"] * k
    kw = make_kwargs(rng, ins, [e_out])
    desc = show_op(ins, [e_out])
    # documented shorthand: omit the output when exactly one input (uniquely) contains all axis names
    if rng.random() < 0.35:
        sets = [{l.name for l, _ in leaves(e) if isinstance(l, Ax)} for e in ins]
        parents = [i for i, s in enumerate(sets) if all(t <= s for j, t in enumerate(sets) if j != i)]
        # a number other than 1 is a fresh axis of its own: it makes its expression the unique superset even
        # when another input has the same named axes ('a 3, a' means 'a c, a' with c=3, output 'a c')
        if "diagonal" not in tags and parents and (len(parents) > 1 or rng.random() < 0.3):
            i = rng.choice(parents)
            lst = list(ins[i])
            lst.insert(rng.randrange(len(lst) + 1), Num(rng.choice([2, 3])))
            ins = list(ins)
            ins[i] = tuple(lst)
            parents = [i]
            tags.add("number-in-implicit-output")
        if len(ins) == 1 or len({show_expr(ins[i]) for i in parents}) == 1 and len(parents) == 1:
            i = parents[0] if len(ins) > 1 else 0
            if "diagonal" not in tags:
                e_out = ins[i]
                desc = show_op(ins)
                kw = make_kwargs(rng, ins, [e_out])
                tags.add("implicit-output")
    return _case(op, "elementwise", desc, ins, [e_out], kw, kinds=kinds, tags=tags | tags_of(list(ins) + [e_out]))


def gen_reduce(g, op=None):
    rng = g.rng
    op = op or rng.choice(REDUCE)
    n = rng.randint(1, g.b.max_axes)
    cap = 16 if op in ("var", "std") else 48
    pool = g.pool(n, max_elems=cap)
    k = rng.randint(1, n)
    if rng.random() < 0.08:
        k = 0  # a reduction over no axis at all: the identity for sum/max/..., but var/std -> 0, count_nonzero/any/all -> x != 0
    marked = rng.sample(pool, k)
    if op in ("var", "std") and marked:
        # keep the polynomial identities small
        while True:
            tot = 1
            for m in marked:
                tot *= m.size
            if tot <= 4 or len(marked) == 1:
                break
            marked = marked[:-1]
    e_in = g.bracket_layout(pool, set(marked))
    rest = [l for l in pool if l not in marked]
    out_leaves = [l for l in rest if not (l.size == 1 and rng.random() < 0.4)]
    tags = set()
    e_out = g.layout(out_leaves, group_prob=0.25)
    form = rng.random()
    desc = show_op([e_in], [e_out])
    from .desc import strip_brackets, unbracket

    if form < 0.25:
        # implicit output = input with brackets removed
        e_out = strip_brackets(e_in)
        desc = show_op([e_in])
        tags.add("implicit-output")
    elif form < 0.5:
        # implicit brackets: print the input without brackets (all marked axes must be absent from out)
        nm = [l.name for l, _ in leaves(e_in) if isinstance(l, Ax)]
        outnames = {l.name for l, _ in leaves(e_out) if isinstance(l, Ax)}
        absent_unit = [l for l in rest if l.name not in outnames]
        if len(nm) == len(set(nm)) and not absent_unit and not any(isinstance(l, Num) and b for l, b in leaves(e_in)):
            desc = show_op([unbracket(e_in)], [e_out])
            tags.add("implicit-brackets")
    kinds = ["bool"] if op in ("all", "any") and rng.random() < 0.5 else ["int"]
    kw = make_kwargs(rng, [e_in], [e_out])
    return _case(op, "reduce", desc, [e_in], [e_out], kw, kinds=kinds, tags=tags | tags_of([e_in, e_out]))


def gen_dot(g):
    rng = g.rng
    k = 2 if rng.random() < 0.85 else 3
    n = rng.randint(2, min(4, g.b.max_axes + 1))
    pool = g.pool(n, max_elems=24)
    ncon = rng.randint(1, max(1, min(2, n - 1)))
    con = pool[:ncon]
    rest = pool[ncon:]
    members = [[] for _ in range(k)]
    for c in con:
        i, j = rng.sample(range(k), 2)
        members[i].append(c)
        members[j].append(c)
    for r in rest:
        owners = [i for i in range(k) if rng.random() < 0.5] or [rng.randrange(k)]
        for i in owners:
            members[i].append(r)
    ins = [g.bracket_layout(m, set(con), group_prob=0.2) if m else () for m in members]
    out_leaves = [l for l in rest if not (l.size == 1 and rng.random() < 0.3)]
    e_out = g.layout(out_leaves, group_prob=0.2)
    tags = set()
    desc = show_op(ins, [e_out])
    from .desc import unbracket

    if rng.random() < 0.5:
        nm_ok = all(len([l.name for l, _ in leaves(e) if isinstance(l, Ax)]) == len({l.name for l, _ in leaves(e) if isinstance(l, Ax)}) for e in ins)
        outnames = {l.name for l, _ in leaves(e_out) if isinstance(l, Ax)}
        no_num = not any(isinstance(l, Num) for e in ins for l, _ in leaves(e))
        if nm_ok and no_num and all(l.name in outnames for l in rest):
            desc = show_op([unbracket(e) for e in ins], [e_out])
            tags.add("implicit-brackets")
    kw = make_kwargs(rng, ins, [e_out])
    return _case("dot", "dot", desc, ins, [e_out], kw, tags=tags | tags_of(list(ins) + [e_out]))


def gen_get_at(g):
    rng = g.rng
    nb = rng.randint(1, 3)
    bnames = rng.sample(["h", "w", "v"], nb)
    bsizes = [rng.choice([2, 3]) if rng.random() < 0.85 else 1 for _ in range(nb)]
    baxes = [Ax(n, s) for n, s in zip(bnames, bsizes)]
    vec = g.pool(rng.randint(0, 2), max_elems=6)
    t_leaves = list(baxes) + [v for v in vec if rng.random() < 0.7]
    rng.shuffle(t_leaves)
    e_t = g.bracket_fixed(t_leaves, set(baxes), group_prob=0.15)
    # split the nb coordinates over 1..2 coordinate tensors
    ncoord = 1 if nb == 1 or rng.random() < 0.6 else rng.randint(2, nb)
    cuts = sorted(rng.sample(range(1, nb), ncoord - 1)) if ncoord > 1 else []
    counts = [b - a for a, b in zip([0] + cuts, cuts + [nb])]
    extra = g.pool(rng.randint(0, 2), max_elems=4)
    extra = [Ax(n, a.size) for n, a in zip(["p", "q"], extra)]
    coords, kinds = [], ["int"]
    for c in counts:
        cv = [v for v in vec if rng.random() < 0.6] + [x for x in extra if rng.random() < 0.7]
        rng.shuffle(cv)
        items = list(cv)
        if c > 1 or rng.random() < 0.5:
            cax = Num(c) if rng.random() < 0.7 else Ax("n" + str(len(coords)), c)
            items.insert(rng.randrange(len(items) + 1), Brk((cax,)))
        coords.append(tuple(items))
        kinds.append("coord")
    used = {}
    for e in [e_t] + coords:
        for l, b in leaves(e):
            if isinstance(l, Ax) and not b:
                used[l.name] = l
    out_leaves = [l for l in used.values() if not (l.size == 1 and rng.random() < 0.3)]
    e_out = g.layout(out_leaves, group_prob=0.15, ones=False)
    ins = [e_t] + coords
    kw = make_kwargs(rng, ins, [e_out])
    return same_name_brackets(_case("get_at", "get_at", show_op(ins, [e_out]), ins, [e_out], kw, kinds=kinds, tags=tags_of(ins + [e_out]) | {f"coords-{ncoord}"}), baxes, rng)


def gen_preserve(g, op=None):
    rng = g.rng
    op = op or rng.choice(PRESERVE)
    n = rng.randint(1, min(4, g.b.max_axes))
    cap = 12 if op in ("softmax", "log_softmax") else 36
    pool = g.pool(n, max_elems=cap)
    if op in ("sort", "argsort"):
        marked = [rng.choice(pool)]
    elif op == "flip" and rng.random() < 0.12:
        marked = []  # flipping no axis at all is the identity (still a real call: factories must run, outputs are checked)
    else:
        marked = rng.sample(pool, rng.randint(1, n))
        if op in ("softmax", "log_softmax"):
            while len(marked) > 1:
                tot = 1
                for m in marked:
                    tot *= m.size
                if tot <= 4:
                    break
                marked = marked[:-1]
    items = list(pool)
    rng.shuffle(items)
    e_in = g.bracket_fixed(items, set(marked), group_prob=0.25)
    tags = set()
    opts = {}
    if op == "roll":
        nm = len(marked)
        if rng.random() < 0.5:
            opts["shift"] = rng.choice([-2, -1, 1, 2, 3])
        else:
            opts["shift"] = tuple(rng.choice([-1, 0, 1, 2]) for _ in range(nm))
    if rng.random() < 0.4:
        e_out = e_in
        desc = show_op([e_in])
        tags.add("implicit-output")
    else:
        # same bracketed axes in the same relative order, loops permuted / regrouped
        loose = [l for l in pool if l not in marked]
        rng.shuffle(loose)
        order = list(loose)
        for m in [x for x in items if x in marked]:
            order.insert(rng.randrange(len(order) + 1), None)
        it = iter([x for x in items if x in marked])
        order = [next(it) if x is None else x for x in order]
        e_out = g.bracket_fixed(order, set(marked), group_prob=0.25)
        desc = show_op([e_in], [e_out])
    kw = make_kwargs(rng, [e_in], [e_out])
    return _case(op, "preserve", desc, [e_in], [e_out], kw, opts=opts, tags=tags | tags_of([e_in, e_out]))


def gen_argfind(g, op=None):
    rng = g.rng
    op = op or rng.choice(ARGFIND)
    n = rng.randint(1, min(4, g.b.max_axes))
    pool = g.pool(n, max_elems=24)
    k = rng.randint(1, min(3, n))
    marked = rng.sample(pool, k)
    items = list(pool)
    rng.shuffle(items)
    e_in = g.bracket_fixed(items, set(marked), contiguous_prob=0.7, group_prob=0.2)
    loose = [l for l in pool if l not in marked and not (l.size == 1 and rng.random() < 0.3)]
    tags = set()
    form = rng.random()
    nbr = sum(1 for it in _flatten_items(e_in) if isinstance(it, Brk))
    if form < 0.3 and nbr == 1:
        # implicit output: the single bracket is replaced by [k]
        e_out = _replace_bracket(e_in, Brk((Num(k),)))
        desc = show_op([e_in])
        tags.add("implicit-output")
    else:
        rng.shuffle(loose)
        o = list(loose)
        if k > 1 or rng.random() < 0.5:
            o.insert(rng.randrange(len(o) + 1), Brk((Num(k),)))
        else:
            tags.add("scalar-coordinate")
        e_out = tuple(g._group(o, 0.15, 1))
        desc = show_op([e_in], [e_out])
    kw = make_kwargs(rng, [e_in], [e_out])
    return _case(op, "argfind", desc, [e_in], [e_out], kw, tags=tags | tags_of([e_in, e_out]))


def _flatten_items(expr):
    for it in expr:
        yield it
        if isinstance(it, Grp):
            yield from _flatten_items(it.items)


def _replace_bracket(expr, new):
    out = []
    for it in expr:
        if isinstance(it, Brk):
            out.append(new)
        elif isinstance(it, Grp):
            out.append(Grp(_replace_bracket(it.items, new)))
        else:
            out.append(it)
    return tuple(out)


def gen_update(g, op=None):
    """set_at / add_at / subtract_at: target with bracketed axes, 1-2 coordinate tensors, updates."""
    rng = g.rng
    op = op or rng.choice(UPDATE)
    nb = rng.randint(1, 2)
    bnames = rng.sample(["h", "w"], nb)
    baxes = [Ax(n, rng.choice([2, 3]) if rng.random() < 0.9 else 1) for n in bnames]
    vec = g.pool(rng.randint(0, 2), max_elems=4)
    vec_t = [v for v in vec if rng.random() < 0.7]
    t_leaves = list(baxes) + vec_t
    rng.shuffle(t_leaves)
    e_t = g.bracket_fixed(t_leaves, set(baxes), group_prob=0.15)
    ncoord = 1 if nb == 1 or rng.random() < 0.6 else 2
    counts = [nb] if ncoord == 1 else [1, 1]
    extra = [Ax(n, rng.choice([1, 2, 2, 3])) for n in ["p", "q"][: rng.randint(0, 2)]]
    cse_groups = rng.random() < 0.2
    if cse_groups:
        # vectorised axes that are flattened groups whose inner lengths are never given: einx treats each
        # group as one axis (common-subexpression elimination); the result does not depend on the factorisation
        extra = [Grp((Ax(n + "1", a), Ax(n + "2", b))) for n, (a, b) in zip(["p", "q"], [rng.choice([(1, 2), (2, 1), (2, 2), (1, 3)]) for _ in range(2)])]
    coords, kinds = [], ["int"]
    for c in counts:
        cv = [v for v in vec if rng.random() < 0.6] + [x for x in extra if rng.random() < 0.7]
        rng.shuffle(cv)
        items = list(cv)
        if c > 1 or rng.random() < 0.5:
            items.insert(rng.randrange(len(items) + 1), Brk((Num(c),)))
        coords.append(tuple(items))
        kinds.append("coord")
    uv = [v for v in vec if rng.random() < 0.6] + [x for x in extra if rng.random() < 0.7]
    rng.shuffle(uv)
    e_u = tuple(uv)
    # updates of an unsigned 8-bit dtype next to an integer target: numpy promotes their VALUE, so the meaning is
    # the same as for integers - unless the lowering does arithmetic on the updates in their own dtype
    kinds.append("uint8" if UINT8_UPDATES and rng.random() < 0.3 else "int")
    ins = [e_t] + coords + [e_u]
    tags = set()
    r_form = rng.random()
    if r_form < 0.4:
        e_out = e_t
        desc = show_op(ins)
        tags.add("implicit-output")
    elif r_form < 0.7 or len(e_t) < 2:
        e_out = e_t
        desc = show_op(ins, [e_out])
    else:
        # explicit output that re-orders the target's top-level items (bracketed items keep their relative order)
        items = list(e_t)
        br_pos = [i for i, it in enumerate(items) if any(isinstance(x, Brk) for x in _walk_items((it,)))]
        for _ in range(10):
            perm = list(range(len(items)))
            rng.shuffle(perm)
            if [p for p in perm if p in br_pos] == br_pos and perm != list(range(len(items))):
                break
        else:
            perm = list(range(len(items)))
        e_out = tuple(items[p] for p in perm)
        desc = show_op(ins, [e_out])
        if perm != list(range(len(items))):
            tags.add("output-reorders-target")
    # axes that only coordinates / updates have
    tn = {l.name for l, _ in leaves(e_t) if isinstance(l, Ax)}
    cn = {l.name for e in coords for l, b in leaves(e) if isinstance(l, Ax) and not b}
    un = {l.name for l, _ in leaves(e_u) if isinstance(l, Ax)}
    if cn - un - tn:
        tags.add("update-broadcast-along-coord-axis")
    if un - cn - tn:
        tags.add("coord-broadcast-along-update-axis")
    if (cn | un) - tn:
        tags.add("axes-absent-from-output")
    kw = make_kwargs(rng, ins, [e_out])
    if cse_groups:
        kw = {k: v for k, v in kw.items() if k not in ("p1", "p2", "q1", "q2")}
        tags.add("cse-groups")
        if not any(isinstance(x, Grp) and x in extra for e in coords for x in e) or not any(isinstance(x, Grp) and x in extra for x in e_u):
            raise ValueError("cse group must constrain both coordinates and updates")
    return same_name_brackets(_case(op, "update", desc, ins, [e_out], kw, kinds=kinds, tags=tags | tags_of(ins + [e_out]) | {f"coords-{ncoord}"}), baxes, rng)


def ellipsify(g, case):
    """Replace one named axis by an ellipsis `x...` (0-3 repetitions) everywhere it occurs."""
    rng = g.rng
    if case["family"] not in ("elementwise", "reduce", "preserve", "dot"):
        return case
    exprs = list(case["ins"]) + list(case["outs"])
    names = sorted({l.name for e in exprs for l, _ in leaves(e) if isinstance(l, Ax)})
    if not names or any(isinstance(x, Ell) for e in exprs for x in _walk_items(e)):
        return case
    x = rng.choice(names)
    marked = any(b for e in exprs for l, b in leaves(e) if isinstance(l, Ax) and l.name == x)
    if case["op"] in ("sort", "argsort") and marked:
        return case
    if "diagonal" in case["tags"] or "repeated-name" in case["tags"]:
        return case
    n = rng.choice([0, 1, 2, 2, 3])
    sizes = [rng.choice([1, 2, 2, 3] if n <= 2 else [1, 2]) for _ in range(n)]
    orig = [l.size for e in exprs for l, _ in leaves(e) if isinstance(l, Ax) and l.name == x][0]
    if orig == 1:
        sizes = [1] * n  # a squeezable axis stays squeezable
    if case["op"] == "roll" and marked and not isinstance(case["opts"].get("shift"), int):
        return case
    anon = rng.random() < 0.25
    ell = Ell(Ax(x, 0), n, tuple(((x, sz),) for sz in sizes), anon=anon)

    def rep(items):
        out = []
        for it in items:
            if isinstance(it, Ax) and it.name == x:
                out.append(ell)
            elif isinstance(it, Grp):
                out.append(Grp(rep(it.items)))
            elif isinstance(it, Brk):
                out.append(Brk(rep(it.items)))
            else:
                out.append(it)
        return tuple(out)

    ins = [rep(e) for e in case["ins"]]
    outs = [rep(e) for e in case["outs"]]
    try:
        kw = make_kwargs(rng, ins, outs)
    except ValueError:
        return case
    kw = {k: v for k, v in kw.items()}
    tags = set(case["tags"]) | tags_of(ins + outs)
    new = _case(case["op"], case["family"], render(ins, outs, case["form"]), ins, outs, kw, opts=case["opts"], kinds=case["kinds"], tags=tags)
    return new


def _walk_items(items):
    for it in items:
        yield it
        if isinstance(it, (Grp, Brk)):
            yield from _walk_items(it.items)
        elif isinstance(it, Cat):
            yield from _walk_items(it.parts)
        elif isinstance(it, Ell):
            yield from _walk_items((it.item,))


GENERATORS = {
    "id": gen_id,
    "elementwise": gen_elementwise,
    "reduce": gen_reduce,
    "dot": gen_dot,
    "get_at": gen_get_at,
    "preserve": gen_preserve,
    "argfind": gen_argfind,
    "update": gen_update,
}


def _compositions(items):
    """All ways to wrap consecutive runs of `items` in parentheses (one nesting level)."""
    n = len(items)
    if n == 0:
        return [()]
    out = []
    for k in range(1, n + 1):
        head = items[:k]
        for rest in _compositions(items[k:]):
            if k == 1:
                out.append((head[0],) + rest)
                out.append((Grp(tuple(head)),) + rest)
            else:
                out.append((Grp(tuple(head)),) + rest)
    return out


def exhaustive(family):
    """Deterministic, complete sub-families (no seed): every permutation x every one-level grouping of
    three axes with lengths (2, 2, 3) and (2, 1, 2) for `id`; every non-empty bracket subset x every output
    permutation for each reduction."""
    cases = []
    for sizes in [(2, 2, 3), (2, 1, 2)]:
        axes_ = [Ax(n, s) for n, s in zip("abc", sizes)]
        if family == "id":
            for perm in itertools.permutations(axes_):
                for e_in in _compositions(list(axes_)):
                    for e_out in _compositions(list(perm)):
                        kw = make_kwargs(random.Random(0), [e_in], [e_out], extra_prob=0.0)
                        cases.append(_case("id", "id", show_op([e_in], [e_out]), [e_in], [e_out], kw, tags={"exhaustive"} | tags_of([e_in, e_out])))
        elif family == "reduce":
            for op in REDUCE:
                for k in range(1, 4):
                    for marked in itertools.combinations(axes_, k):
                        if op in ("var", "std") and k > 1:
                            continue
                        e_in = tuple(Brk((a,)) if a in marked else a for a in axes_)
                        rest = [a for a in axes_ if a not in marked]
                        for perm in itertools.permutations(rest):
                            e_out = tuple(perm)
                            kw = make_kwargs(random.Random(0), [e_in], [e_out], extra_prob=0.0)
                            cases.append(_case(op, "reduce", show_op([e_in], [e_out]), [e_in], [e_out], kw, tags={"exhaustive"} | tags_of([e_in, e_out])))
    if family == "dot-batch":
        # two batch axes, one contracted axis, one free axis: every axis order of the first operand x a fixed spread of
        # orders of the second (batch axes in the same / in opposite relative order, interleaved with the others)
        a, b, c, d = Ax("a", 2), Ax("b", 3), Ax("c", 2), Ax("d", 2)
        second = [p for i, p in enumerate(itertools.permutations([a, b, c, d])) if i % 2 == 0]
        for p1 in itertools.permutations([a, b, c]):
            for p2 in second:
                for e_out in ((a, b, d), (b, d, a)):
                    ins = [tuple(Brk((x,)) if x is c else x for x in p1), tuple(Brk((x,)) if x is c else x for x in p2)]
                    if (p1.index(a) < p1.index(b)) == (p2.index(a) < p2.index(b)) and e_out == (b, d, a):
                        continue
                    cases.append(_case("dot", "dot", show_op(ins, [e_out]), ins, [e_out], {}, tags={"exhaustive", "dot-batch"} | tags_of(ins + [e_out])))
        return cases
    if family == "argfind-brackets":
        # every bracket pattern over three axes, with unit axes in every position, for argmax (explicit '[k]' output)
        for sizes in [(2, 2, 3), (1, 2, 3), (2, 1, 3), (2, 3, 1), (1, 3, 1)]:
            axes_ = [Ax(n, s) for n, s in zip("abc", sizes)]
            for k in range(1, 4):
                for marked in itertools.combinations(range(3), k):
                    runs, cur = [], []
                    for i in range(3):
                        if i in marked:
                            cur.append(i)
                        elif cur:
                            runs.append(cur)
                            cur = []
                    if cur:
                        runs.append(cur)
                    for joint in itertools.product([True, False], repeat=len(runs)):
                        if any(j and len(r) == 1 for j, r in zip(joint, runs)):
                            continue
                        items, i = [], 0
                        while i < 3:
                            r = next((r for r in runs if r[0] == i), None)
                            if r is None:
                                items.append(axes_[i])
                                i += 1
                            elif joint[runs.index(r)]:
                                items.append(Brk(tuple(axes_[j] for j in r)))
                                i += len(r)
                            else:
                                items.extend(Brk((axes_[j],)) for j in r)
                                i += len(r)
                        e_in = tuple(items)
                        rest = [axes_[i] for i in range(3) if i not in marked]
                        for pos in range(len(rest) + 1):
                            o = list(rest)
                            o.insert(pos, Brk((Num(k),)))
                            e_out = tuple(o)
                            cases.append(_case("argmax", "argfind", show_op([e_in], [e_out]), [e_in], [e_out], {}, tags={"exhaustive", "bracket-pattern"} | tags_of([e_in, e_out])))
        return cases
    if family == "reduce-brackets":
        # every bracket pattern over four axes; adjacent bracketed axes written jointly ('[a b]') or one by one
        for sizes in [(2, 2, 2, 2), (2, 3, 2, 2)]:
            axes_ = [Ax(n, s) for n, s in zip("abcd", sizes)]
            for k in range(1, 5):
                for marked in itertools.combinations(range(4), k):
                    runs, cur = [], []
                    for i in range(4):
                        if i in marked:
                            cur.append(i)
                        elif cur:
                            runs.append(cur)
                            cur = []
                    if cur:
                        runs.append(cur)
                    for joint in itertools.product([True, False], repeat=len(runs)):
                        if any(j and len(r) == 1 for j, r in zip(joint, runs)):
                            continue  # a single axis has only one way to be bracketed
                        items, i = [], 0
                        while i < 4:
                            r = next((r for r in runs if r[0] == i), None)
                            if r is None:
                                items.append(axes_[i])
                                i += 1
                            elif joint[runs.index(r)]:
                                items.append(Brk(tuple(axes_[j] for j in r)))
                                i += len(r)
                            else:
                                items.extend(Brk((axes_[j],)) for j in r)
                                i += len(r)
                        e_in = tuple(items)
                        rest = [axes_[i] for i in range(4) if i not in marked]
                        for e_out in {tuple(rest), tuple(reversed(rest))}:
                            cases.append(_case("sum", "reduce", show_op([e_in], [e_out]), [e_in], [e_out], {}, tags={"exhaustive", "bracket-pattern"} | tags_of([e_in, e_out])))
        return cases
    return cases


def generate(family, n, seed, tier="quick"):
    """n distinct cases of one family."""
    g = Gen(f"{family}:{seed}", tier)
    seen, out = set(), []
    tries = 0
    while len(out) < n and tries < n * 20:
        tries += 1
        try:
            c = GENERATORS[family](g)
            if g.rng.random() < 0.2:
                c = ellipsify(g, c)
        except (IndexError, ValueError):
            continue
        if not case_ok(c, g.b):
            continue
        key = (c["op"], c["desc"], tuple(sorted(c["kwargs"].items())), tuple(shape(expand(e)) for e in c["ins"]), str(c["opts"]))
        if key in seen:
            continue
        seen.add(key)
        out.append(c)
    return out


def case_ok(c, b):
    for e in list(c["ins"]) + list(c["outs"]):
        sh = shape(expand(e))
        tot = 1
        for s in sh:
            tot *= s
        if tot > b.max_elems or tot == 0:
            return False
        if len(list(leaves(expand(e)))) > b.max_axes + 2:
            return False
    return True
