"""z3 front end: validity queries over term arrays, with statistics."""

import time

import numpy as np
import z3

from . import elem

STATS = {"queries": 0, "unsat": 0, "sat": 0, "unknown": 0, "trivial": 0, "solver_s": 0.0}


def reset_stats():
    for k in STATS:
        STATS[k] = 0 if k != "solver_s" else 0.0


def _same(a, b):
    if elem.is_sym(a) and elem.is_sym(b):
        return a.eq(b)
    if not elem.is_sym(a) and not elem.is_sym(b):
        try:
            return elem.norm(a) == elem.norm(b) and isinstance(elem.norm(a), bool) == isinstance(elem.norm(b), bool)
        except Exception:
            return False
    return False


def solve(formula_to_refute, assumptions=(), timeout_ms=20000):
    """Ask for a model of  assumptions ∧ formula_to_refute.  Returns (verdict, model, seconds) with
    verdict in {'unsat', 'sat', 'unknown'}."""
    s = z3.Solver()
    s.set("timeout", int(timeout_ms))
    for a in assumptions:
        s.add(a)
    s.add(formula_to_refute)
    t0 = time.time()
    r = s.check()
    dt = time.time() - t0
    STATS["queries"] += 1
    STATS["solver_s"] += dt
    v = str(r)
    STATS[v] += 1
    return v, (s.model() if v == "sat" else None), dt


def differ_formula(out, ref):
    """Disjunction 'some position differs', or None when every position is syntactically identical."""
    out = np.asarray(out, dtype=object) if not isinstance(out, np.ndarray) else out
    ref = np.asarray(ref, dtype=object) if not isinstance(ref, np.ndarray) else ref
    if tuple(out.shape) != tuple(ref.shape):
        raise ShapeMismatch(tuple(out.shape), tuple(ref.shape))
    diffs = []
    for pos in np.ndindex(*out.shape):
        a, b = out[pos], ref[pos]
        if _same(a, b):
            continue
        d = elem.ne(a, b)
        if d is True:
            return z3.BoolVal(True)
        if d is False:
            continue
        diffs.append(elem.z(d))
    if not diffs:
        return None
    return z3.Or(*diffs)


class ShapeMismatch(Exception):
    pass


def prove_equal(pairs, assumptions=(), timeout_ms=20000):
    """pairs: [(out array, ref array)]. Returns (verdict, model, seconds); verdict 'trivial' when all
    positions are syntactically identical."""
    fs = []
    for o, r in pairs:
        f = differ_formula(o, r)
        if f is not None:
            fs.append(f)
    if not fs:
        STATS["trivial"] += 1
        return "trivial", None, 0.0
    return solve(z3.Or(*fs), assumptions, timeout_ms)


def prove(formula, assumptions=(), timeout_ms=20000):
    """Validity of `formula` under assumptions: refute its negation."""
    return solve(z3.Not(formula), assumptions, timeout_ms)


def concretise(arr, model, sort="int"):
    """Evaluate a SymArray / object array under a model -> plain numpy array (int64 / float64 / bool)."""
    a = np.asarray(arr, dtype=object) if not isinstance(arr, np.ndarray) else arr.view(np.ndarray)
    vals = np.empty(a.shape, dtype=object)
    for pos in np.ndindex(*a.shape):
        vals[pos] = elem.evaluate(a[pos], model)
    return vals


def to_numpy(vals):
    """Object array of Python numbers -> numeric numpy array."""
    flat = list(vals.flat)
    if all(isinstance(v, bool) for v in flat) and flat:
        return vals.astype(bool)
    if all(isinstance(v, (int, bool)) for v in flat):
        return np.array([int(v) for v in flat], dtype=np.int64).reshape(vals.shape)
    return np.array([float(v) for v in flat], dtype=np.float64).reshape(vals.shape)
