"""E3: CrossHair runner. Harness modules live in /verif/xh/ (some are generated at run time into
/verif/xh/_gen/). Every condition is a module-level function `cond_*` (or `twin_*`) with a PEP316 docstring
whose postcondition is `_` (the function returns True iff the property holds on that input). One CrossHair
process per condition; verdicts:
  confirmed       "Confirmed over all paths" (exhaustive within the condition's bound)
  counterexample  CrossHair printed a failing call (to be replayed)
  not-confirmed / no-precondition / timeout / error   -> inconclusive, never counted as a proof
Twins (`twin_*`) carry a deliberately false postcondition and must be refuted.
"""

import ast
import os
import re
import subprocess
import sys
import time

from . import runner

XH_DIR = os.path.join(runner.ROOT, "xh")
GEN_DIR = os.path.join(XH_DIR, "_gen")
PY = os.path.join(runner.ROOT, ".venv", "bin", "python")


def conditions_in(path):
    """[(function name, line number of the def)] for cond_* / twin_* functions."""
    with open(path) as f:
        tree = ast.parse(f.read())
    out = []
    for node in tree.body:
        if isinstance(node, ast.FunctionDef) and (node.name.startswith("cond_") or node.name.startswith("twin_")):
            out.append((node.name, node.lineno + 1))
    return out


class Handle:
    def __init__(self):
        self.procs = []
        self.t0 = time.time()
        self.pending = []
        self.max_parallel = 8
        self.results = []


def _launch(h, path, name, line, timeout, env):
    cmd = [PY, "-m", "crosshair", "check", "--report_all", "--per_condition_timeout", str(timeout), f"{path}:{line}"]
    e = dict(os.environ)
    e["PYTHONPATH"] = runner.ROOT + os.pathsep + "/repo"
    e.update(env or {})
    p = subprocess.Popen(cmd, stdout=subprocess.PIPE, stderr=subprocess.PIPE, text=True, env=e, cwd=runner.ROOT)
    h.procs.append({"name": name, "path": path, "line": line, "proc": p, "t0": time.time(), "timeout": timeout})


def start_file(path, per_condition_timeout=60, env=None, only=None, max_parallel=8):
    h = Handle()
    h.max_parallel = max_parallel
    for name, line in conditions_in(path):
        if only and not any(name.startswith(o) for o in only):
            continue
        h.pending.append((path, name, line, per_condition_timeout, env))
    _pump(h)
    return h


def start_many(specs, max_parallel=16, env=None):
    """specs: [(path, per_condition_timeout)]; one shared pool of CrossHair processes."""
    h = Handle()
    h.max_parallel = max_parallel
    for path, timeout in specs:
        for name, line in conditions_in(path):
            h.pending.append((path, name, line, timeout, env))
    # longest budgets first so the pool drains evenly
    h.pending.sort(key=lambda t: -t[3])
    _pump(h)
    return h


def _pump(h):
    running = [p for p in h.procs if p["proc"].poll() is None]
    while h.pending and len(running) < h.max_parallel:
        path, name, line, timeout, env = h.pending.pop(0)
        _launch(h, path, name, line, timeout, env)
        running = [p for p in h.procs if p["proc"].poll() is None]


def start(name, per_condition_timeout=60, env=None, only=None, max_parallel=8, **params):
    """Start the harness module xh/<name>.py (parameters are passed through the environment)."""
    e = dict(env or {})
    for k, v in params.items():
        e["XH_" + k.upper()] = repr(v)
    path = os.path.join(XH_DIR, name + ".py")
    return start_file(path, per_condition_timeout, e, only, max_parallel)


_CALL = re.compile(r"when calling (.*?)(?: \(which returns .*\))?$")


def finish(h, hard_factor=3.0):
    """Wait for all conditions; returns {'conditions': [...], 'wall_s': .., counts}."""
    done = set()
    while True:
        _pump(h)
        alive = False
        for p in h.procs:
            if id(p) in done:
                continue
            rc = p["proc"].poll()
            if rc is None:
                if time.time() - p["t0"] > p["timeout"] * hard_factor + 60:
                    p["proc"].kill()
                    p["killed"] = True
                else:
                    alive = True
                    continue
            out, err = p["proc"].communicate()
            done.add(id(p))
            h.results.append(_classify(p, out, err))
        if not alive and not h.pending:
            break
        time.sleep(0.2)
    counts = {}
    for r in h.results:
        counts[r["verdict"]] = counts.get(r["verdict"], 0) + 1
    return {"conditions": h.results, "wall_s": round(time.time() - h.t0, 2), "counts": counts}


def _classify(p, out, err):
    name = p["name"]
    text = out.strip()
    r = {"name": name, "file": p["path"], "seconds": round(time.time() - p["t0"], 2), "message": text[-800:], "call": None}
    twin = name.startswith("twin_")
    if p.get("killed"):
        v = "timeout"
    elif "error:" in text:
        m = _CALL.search(text.splitlines()[-1]) or _CALL.search(text)
        r["call"] = m.group(1) if m else None
        v = "counterexample"
    elif "Confirmed over all paths" in text:
        v = "confirmed"
    elif "Unable to meet precondition" in text:
        v = "no-precondition"
    elif "Not confirmed" in text:
        v = "not-confirmed"
    elif p["proc"].returncode not in (0, 1):
        v = "error"
        r["message"] = (text + "\n" + err)[-800:]
    else:
        v = "not-confirmed"
    if twin:
        v = "twin-refuted" if v == "counterexample" else "twin-not-refuted"
    r["verdict"] = v
    return r


REPLAY = r'''#!/verif/.venv/bin/python
"""Replay of a CrossHair counterexample (property {prop}, condition {name}): the harness function is an
ordinary Python function over einx's real code; it returns True iff the property holds on the input."""
import os, sys
sys.path.insert(0, "/verif"); sys.path.insert(0, "/repo")
for k, v in {env!r}.items():
    os.environ[k] = v
import importlib.util
spec = importlib.util.spec_from_file_location("xh_mod", {path!r})
mod = importlib.util.module_from_spec(spec); spec.loader.exec_module(mod)
call = {call!r}
print("calling", call)
try:
    ok = eval("mod." + call, {{"mod": mod, **vars(mod)}})
except Exception as e:
    print("REPRODUCED: raised %s: %s" % (type(e).__name__, str(e)[:300])); sys.exit(1)
print("returned", ok)
if ok is not True:
    print("REPRODUCED: property does not hold on this input"); sys.exit(1)
print("NOT-REPRODUCED"); sys.exit(0)
'''


def write_replay(prop, cond, env=None):
    import hashlib

    os.makedirs(os.path.join(runner.REPLAY_DIR, prop), exist_ok=True)
    call = cond.get("call") or ""
    path = os.path.join(runner.REPLAY_DIR, prop, "xh_" + cond["name"] + "_" + hashlib.sha1(call.encode()).hexdigest()[:10] + ".py")
    with open(path, "w") as f:
        f.write(REPLAY.format(prop=prop, name=cond["name"], path=cond["file"], call=call, env={k: v for k, v in (env or {}).items()}))
    return path
