"""E4: axis / rank constraint systems of einx descriptions as z3 problems, built from the structured
description (vlib/desc.py) — independent of einx's equation objects and of sympy.

A *member* is (exprs, shapes, kwargs): structured expressions whose Ell nodes carry the base names only (the
repetition counts are unknowns), one shape (tuple of ints) or None per expression, keyword sizes (int or
tuple per name). For every ellipsis-count vector k within the bound there is one flat system S_k over
positive integer axis lengths.
"""

import itertools

import z3

from .desc import Ax, Num, Grp, Cat, Brk, Ell


MAX_REPS = 4


def ell_bases(exprs):
    out = []

    def rec(items):
        for it in items:
            if isinstance(it, Ell):
                nm = names_in((it.item,))
                key = tuple(nm)
                if key not in out:
                    out.append(key)
                rec((it.item,))
            elif isinstance(it, (Grp, Brk)):
                rec(it.items)
            elif isinstance(it, Cat):
                rec(it.parts)

    for e in exprs:
        rec(e)
    return out


def names_in(items):
    out = []

    def rec(items):
        for it in items:
            if isinstance(it, Ax):
                if it.name not in out:
                    out.append(it.name)
            elif isinstance(it, (Grp, Brk)):
                rec(it.items)
            elif isinstance(it, Cat):
                rec(it.parts)
            elif isinstance(it, Ell):
                rec((it.item,))

    rec(items)
    return out


def ellipsis_groups(exprs):
    """Names that must share a repetition count: connected components of 'occur in the same ellipsis'."""
    groups = []
    for key in ell_bases(exprs):
        merged = set(key)
        rest = []
        for g in groups:
            if g & merged:
                merged |= g
            else:
                rest.append(g)
        groups = rest + [merged]
    return [sorted(g) for g in groups]


def expand_with_counts(expr, counts):
    """Unroll ellipses: counts maps each ellipsis-expanded name to its repetition count. Named axes inside
    an ellipsis become (name, rep); others (name, None)."""

    def rename(it, r):
        if isinstance(it, Ax):
            return ("ax", it.name, r)
        if isinstance(it, Num):
            return ("num", it.size)
        if isinstance(it, Grp):
            return ("grp", [x for i in it.items for x in ex(i, r)])
        if isinstance(it, Brk):
            return ("brk", [x for i in it.items for x in ex(i, r)])
        if isinstance(it, Cat):
            return ("cat", [x for i in it.parts for x in ex(i, r)])
        raise TypeError(it)

    def ex(it, r):
        if isinstance(it, Ell):
            if r is not None:
                raise NotImplementedError("nested ellipsis")
            nm = names_in((it.item,))
            n = counts[nm[0]] if nm else counts["<anon>"]
            out = []
            for k in range(n):
                out.append(rename(it.item, k))
            return out
        return [rename(it, r)]

    return [x for it in expr for x in ex(it, None)]


def dims_of(items):
    out = []
    for it in items:
        if it[0] == "brk":
            out.extend(dims_of(it[1]))
        else:
            out.append(it)
    return out


class System:
    """S_k for one count vector."""

    def __init__(self, exprs, shapes, kwargs, counts, ell_names):
        self.vars = {}
        self.cons = []
        self.ok = True  # False when k contradicts a rank or a tuple length (trivially unsat)
        self.counts = counts
        self.expanded = [expand_with_counts(e, counts) for e in exprs]
        self.dim_terms = []
        for ex, shp in zip(self.expanded, shapes):
            ds = dims_of(ex)
            terms = [self.size(d) for d in ds]
            self.dim_terms.append(terms)
            if shp is not None:
                if len(ds) != len(shp):
                    self.ok = False
                    continue
                for t, s in zip(terms, shp):
                    self.cons.append(t == int(s))
        for ex, shp in zip(self.expanded, shapes):
            if shp is not None and len(dims_of(ex)) == len(shp):
                for d, s in zip(dims_of(ex), shp):
                    self.bound(d, int(s))
        for name, v in kwargs.items():
            if name in ell_names:
                n = counts[name]
                vals = list(v) if isinstance(v, (tuple, list)) else [v] * n
                if isinstance(v, (tuple, list)) and len(vals) != n:
                    self.ok = False
                    continue
                for r, x in enumerate(vals):
                    self.cons.append(self.var(name, r) == int(x))
            else:
                if isinstance(v, (tuple, list)):
                    # a tuple for a plain axis: only a 0-d / length-matching value makes sense; treat as mismatch
                    self.ok = False
                    continue
                if (name, None) in self.vars or any(k[0] == name for k in self.vars):
                    self.cons.append(self.var(name, None) == int(v))

    def var(self, name, rep):
        k = (name, rep)
        if k not in self.vars:
            v = z3.Int(name if rep is None else f"{name}.{rep}")
            self.vars[k] = v
            self.cons.append(v >= 1)
        return self.vars[k]

    def size(self, it):
        if it[0] == "ax":
            return self.var(it[1], it[2])
        if it[0] == "num":
            return z3.IntVal(it[1])
        if it[0] in ("grp", "brk"):
            t = z3.IntVal(1)
            for d in dims_of(it[1]):
                t = t * self.size(d)
            return t
        if it[0] == "cat":
            t = z3.IntVal(0)
            for d in it[1]:
                t = t + self.size(d)
            return t
        raise TypeError(it)

    def bound(self, it, s):
        if it is None:
            return
        if it[0] == "ax":
            self.cons.append(self.var(it[1], it[2]) <= max(s, 1))
        elif it[0] in ("grp", "brk"):
            for d in dims_of(it[1]):
                self.bound(d, s)
        elif it[0] == "cat":
            for d in it[1]:
                self.bound(d, s)

    def solver(self, timeout_ms):
        s = z3.Solver()
        s.set("timeout", int(timeout_ms))
        for c in self.cons:
            s.add(c)
        return s


def count_vectors(exprs, shapes, kwargs):
    """All ellipsis-count vectors within the bound (each group of tied names gets one count 0..MAX_REPS;
    a tuple-valued keyword fixes it)."""
    groups = ellipsis_groups(exprs)
    ranges = []
    for g in groups:
        fixed = None
        for n in g:
            if n in kwargs and isinstance(kwargs[n], (tuple, list)):
                fixed = len(kwargs[n])
        ranges.append([fixed] if fixed is not None else list(range(0, MAX_REPS + 1)))
    vecs = []
    for combo in itertools.product(*ranges):
        counts = {}
        for g, c in zip(groups, combo):
            for n in g:
                counts[n] = c
        vecs.append(counts)
    return vecs, [n for g in groups for n in g]


def propagate(exprs, shapes, kwargs):
    """Reference unit propagation ('substituting known values one flattened / concatenated axis at a
    time'), after fixing every ellipsis count by dimension counting. Returns dict (name, rep) -> int when it
    determines *everything* without contradiction, else None."""
    groups = ellipsis_groups(exprs)
    ell_names = [n for g in groups for n in g]
    counts = {}
    for g in groups:
        for n in g:
            if n in kwargs and isinstance(kwargs[n], (tuple, list)):
                for m in g:
                    counts[m] = len(kwargs[n])
    changed = True
    while changed:
        changed = False
        for e, shp in zip(exprs, shapes):
            if shp is None:
                continue
            # top-level items (brackets transparent): fixed dims + ellipses
            fixed, ells = 0, []

            def top(items):
                nonlocal fixed
                for it in items:
                    if isinstance(it, Ell):
                        nm = names_in((it.item,))
                        per = len(_top_dims((it.item,)))
                        ells.append((nm[0] if nm else "<anon>", per))
                    elif isinstance(it, Brk):
                        top(it.items)
                    else:
                        fixed += 1

            top(e)
            unknown = [(n, per) for n, per in ells if n not in counts]
            known = sum(counts[n] * per for n, per in ells if n in counts)
            if len({n for n, _ in unknown}) == 1:
                n, per = unknown[0]
                tot = sum(p for m, p in unknown)
                rest = len(shp) - fixed - known
                if tot > 0 and rest >= 0 and rest % tot == 0:
                    c = rest // tot
                    for g in groups:
                        if n in g:
                            for m in g:
                                counts[m] = c
                    changed = True
    if any(n not in counts for n in ell_names):
        return None
    if any(c > MAX_REPS for c in counts.values()):
        return None
    val = {}
    for name, v in kwargs.items():
        if name in ell_names:
            vals = list(v) if isinstance(v, (tuple, list)) else [v] * counts[name]
            if len(vals) != counts[name]:
                return None
            for r, x in enumerate(vals):
                val[(name, r)] = int(x)
        elif not isinstance(v, (tuple, list)):
            val[(name, None)] = int(v)
    if any(v < 1 for v in val.values()):
        return None  # lengths are positive integers: nothing can be "determined by substitution"
    expanded = [expand_with_counts(e, counts) for e in exprs]

    def known(it):
        if it[0] == "ax":
            return val.get((it[1], it[2]))
        if it[0] == "num":
            return it[1]
        if it[0] in ("grp", "brk"):
            p = 1
            for d in dims_of(it[1]):
                k = known(d)
                if k is None:
                    return None
                p *= k
            return p
        if it[0] == "cat":
            s = 0
            for d in it[1]:
                k = known(d)
                if k is None:
                    return None
                s += k
            return s

    class Conflict(Exception):
        pass

    def learn(it, total):
        if total < 1:
            raise Conflict
        if it[0] == "ax":
            k = (it[1], it[2])
            if k in val:
                if val[k] != total:
                    raise Conflict
                return False
            val[k] = total
            return True
        if it[0] == "num":
            if it[1] != total:
                raise Conflict
            return False
        if it[0] in ("grp", "brk"):
            ds = dims_of(it[1])
            unk = [d for d in ds if known(d) is None]
            p = 1
            for d in ds:
                if known(d) is not None:
                    p *= known(d)
            if not unk:
                if p != total:
                    raise Conflict
                return False
            if len(unk) == 1:
                if total % p:
                    raise Conflict
                return learn(unk[0], total // p)
            return False
        if it[0] == "cat":
            unk = [d for d in it[1] if known(d) is None]
            s = sum(known(d) for d in it[1] if known(d) is not None)
            if not unk:
                if s != total:
                    raise Conflict
                return False
            if len(unk) == 1:
                return learn(unk[0], total - s)
            return False
        return False

    try:
        for ex, shp in zip(expanded, shapes):
            if shp is not None and len(dims_of(ex)) != len(shp):
                return None
        ch = True
        while ch:
            ch = False
            for ex, shp in zip(expanded, shapes):
                if shp is None:
                    continue
                for d, s in zip(dims_of(ex), shp):
                    ch |= learn(d, int(s))
    except Conflict:
        return None
    for ex in expanded:

        def all_known(items):
            for it in items:
                if it[0] == "ax" and (it[1], it[2]) not in val:
                    return False
                if it[0] in ("grp", "brk", "cat") and not all_known(it[1]):
                    return False
            return True

        if not all_known(ex):
            return None
    if any(v < 1 for v in val.values()):
        return None
    return {"values": val, "counts": counts, "expanded": expanded}


def _top_dims(items):
    out = []
    for it in items:
        if isinstance(it, Brk):
            out.extend(_top_dims(it.items))
        else:
            out.append(it)
    return out


def eval_expanded(it, val):
    if it[0] == "ax":
        return val[(it[1], it[2])]
    if it[0] == "num":
        return it[1]
    if it[0] in ("grp", "brk"):
        p = 1
        for d in dims_of(it[1]):
            p *= eval_expanded(d, val)
        return p
    if it[0] == "cat":
        return sum(eval_expanded(d, val) for d in it[1])
    raise TypeError(it)
