"""Structured einx descriptions (own data types, own printer — no einx code involved).

A tensor expression is a tuple of items:
  Ax(name, size)                 named axis
  Num(size, uid)                 numeric literal: a fresh anonymous axis of that length
  Grp(items)                     ( items )        flattened axis, row-major
  Cat(parts)                     ( p0 + p1 + .. ) concatenated axis; each part is Ax / Num / Grp
  Brk(items)                     [ items ]        part of the elementary operation's signature
  Ell(item, n, sizes, anon)      item...          `item` repeated n times (names get suffix .i)

The generator builds these and prints them; RefSem interprets the *expanded* form (ellipses unrolled,
every leaf carrying its concrete size).
"""

from dataclasses import dataclass, field
from typing import Tuple, Any
import itertools


@dataclass(frozen=True)
class Ax:
    name: str
    size: int


_num_uid = itertools.count()


@dataclass(frozen=True)
class Num:
    size: int
    uid: int = field(default_factory=lambda: next(_num_uid))


@dataclass(frozen=True)
class Grp:
    items: Tuple[Any, ...]


@dataclass(frozen=True)
class Cat:
    parts: Tuple[Any, ...]


@dataclass(frozen=True)
class Brk:
    items: Tuple[Any, ...]


@dataclass(frozen=True)
class Ell:
    """`item...` with n repetitions. `item` uses Ax sizes as placeholders; rep_sizes[i][name] gives the
    size of `name` in repetition i. anon=True prints as a bare `...` (item must then be a single Ax)."""

    item: Any
    n: int
    rep_sizes: Tuple[Tuple[Tuple[str, int], ...], ...]
    anon: bool = False


# ---------------------------------------------------------------------------------------------------
# printing


def show_item(it):
    if isinstance(it, Ax):
        return it.name
    if isinstance(it, Num):
        return str(it.size)
    if isinstance(it, Grp):
        return "(" + " ".join(show_item(i) for i in it.items) + ")"
    if isinstance(it, Cat):
        return "(" + " + ".join(show_item(p) for p in it.parts) + ")"
    if isinstance(it, Brk):
        return "[" + " ".join(show_item(i) for i in it.items) + "]"
    if isinstance(it, Ell):
        if it.anon:
            return "..."
        return show_item(it.item) + "..."
    raise TypeError(it)


def show_expr(expr):
    return " ".join(show_item(i) for i in expr)


def show_op(ins, outs=None):
    s = ", ".join(show_expr(e) for e in ins)
    if outs is not None:
        s += " -> " + ", ".join(show_expr(e) for e in outs)
    return s


# ---------------------------------------------------------------------------------------------------
# expansion of ellipses


def _rename(it, suffix, sizes):
    if isinstance(it, Ax):
        return Ax(it.name + suffix, sizes.get(it.name, it.size))
    if isinstance(it, Num):
        return Num(it.size, uid=hash((it.uid, suffix)) & 0x7FFFFFFF)
    if isinstance(it, Grp):
        return Grp(tuple(_rename(i, suffix, sizes) for i in it.items))
    if isinstance(it, Cat):
        return Cat(tuple(_rename(i, suffix, sizes) for i in it.parts))
    if isinstance(it, Brk):
        return Brk(tuple(_rename(i, suffix, sizes) for i in it.items))
    if isinstance(it, Ell):
        raise NotImplementedError("nested ellipsis")
    raise TypeError(it)


def expand_items(items):
    out = []
    for it in items:
        if isinstance(it, Ell):
            for r in range(it.n):
                out.append(_rename(it.item, f".{r}", dict(it.rep_sizes[r])))
        elif isinstance(it, Grp):
            out.append(Grp(tuple(expand_items(it.items))))
        elif isinstance(it, Brk):
            out.append(Brk(tuple(expand_items(it.items))))
        elif isinstance(it, Cat):
            out.append(Cat(tuple(expand_items(it.parts))))
        else:
            out.append(it)
    return out


def expand(expr):
    return tuple(expand_items(expr))


# ---------------------------------------------------------------------------------------------------
# queries on expanded expressions


def key_of(leaf):
    if isinstance(leaf, Ax):
        return leaf.name
    return ("num", leaf.uid)


def leaves(expr, in_brk=False):
    """Yield (leaf, bracketed) in order of appearance."""
    for it in expr:
        if isinstance(it, (Ax, Num)):
            yield it, in_brk
        elif isinstance(it, Grp):
            yield from leaves(it.items, in_brk)
        elif isinstance(it, Cat):
            yield from leaves(it.parts, in_brk)
        elif isinstance(it, Brk):
            yield from leaves(it.items, True)
        elif isinstance(it, Ell):
            raise ValueError("expand first")
        else:
            raise TypeError(it)


def item_size(it):
    if isinstance(it, (Ax, Num)):
        return it.size
    if isinstance(it, Grp):
        n = 1
        for d in dims(it.items):
            n *= item_size(d)
        return n
    if isinstance(it, Cat):
        return sum(item_size(p) for p in it.parts)
    raise TypeError(it)


def dims(expr):
    """Top-level dimensions of an expanded expression: brackets are transparent."""
    out = []
    for it in expr:
        if isinstance(it, Brk):
            out.extend(dims(it.items))
        else:
            out.append(it)
    return out


def dims_b(expr, in_brk=False):
    """Top-level dimensions with their bracket flag."""
    out = []
    for it in expr:
        if isinstance(it, Brk):
            out.extend(dims_b(it.items, True))
        else:
            out.append((it, in_brk))
    return out


def shape(expr):
    return tuple(item_size(d) for d in dims(expr))


def has_cat(expr):
    def rec(items):
        for it in items:
            if isinstance(it, Cat):
                return True
            if isinstance(it, (Grp, Brk)) and rec(it.items):
                return True
        return False

    return rec(expr)


def names(expr):
    return [l.name for l, _ in leaves(expr) if isinstance(l, Ax)]


def strip_brackets(expr):
    """Remove brackets together with their content."""
    out = []
    for it in expr:
        if isinstance(it, Brk):
            continue
        if isinstance(it, Grp):
            out.append(Grp(tuple(strip_brackets(it.items))))
        else:
            out.append(it)
    return tuple(out)


def unbracket(expr):
    """Remove brackets but keep their content."""
    out = []
    for it in expr:
        if isinstance(it, Brk):
            out.extend(unbracket(it.items))
        elif isinstance(it, Grp):
            out.append(Grp(tuple(unbracket(it.items))))
        else:
            out.append(it)
    return tuple(out)
