"""Tracer-graph tooling for C04/C05: capture spies, an independent node-by-node interpreter of the IR,
and a seeded builder of well-formed graphs over all IR node types (built with einx's real constructors)."""

import builtins as _builtins
import importlib
import operator as _operator
import random

import numpy as np

from . import symarray as S


def tr():
    import einx._src.tracer as tracer

    return tracer


# ---------------------------------------------------------------------------------------------------
# spies


class Capture:
    """Context manager recording every (graph before optimisation, graph after, function, code) that
    einx builds while it is active."""

    def __init__(self):
        self.records = []
        self._pairs = []

    def __enter__(self):
        import einx._src.frontend.api as api
        import einx._src.tracer as tracer

        self.tracer = tracer
        self.api = api
        self._orig_opt = tracer.optimize
        self._orig_compile = tracer.compiler.python.compile
        cap = self

        def optimize(graph, optimizations):
            out = cap._orig_opt(graph, optimizations=optimizations)
            cap._pairs.append((graph, out, optimizations))
            return out

        def compile_(obj, return_code=False):
            res = cap._orig_compile(obj, return_code=True)
            before = [p for p in cap._pairs if p[1] is obj]
            cap.records.append({"graph": obj, "before": before[-1][0] if before else None, "optimizations": before[-1][2] if before else None, "function": res[0], "code": res[1]})
            return res if return_code else res[0]

        tracer.optimize = optimize
        tracer.compiler.python.compile = compile_
        return self

    def __exit__(self, *a):
        self.tracer.optimize = self._orig_opt
        self.tracer.compiler.python.compile = self._orig_compile


# ---------------------------------------------------------------------------------------------------
# independent interpreter (functional semantics: an in-place node returns an updated copy, so a value read
# from the pre-update tracer keeps denoting the pre-update state)


class Interp:
    def __init__(self, parent=None, local_inputs=()):
        self.memo = {}
        self.evaluated = []
        self.parent = parent
        self.local_ids = {id(i) for i in local_inputs}
        self._dep = {}

    def _depends_on_local(self, x):
        """Does x (transitively) depend on an input of *this* closure?"""
        tracer = tr()
        if isinstance(x, tracer.Graph):
            return self._depends_on_local(x.output)
        if isinstance(x, tracer.Tracer):
            if id(x) in self.local_ids:
                return True
            if x.origin is None:
                return False
            k = id(x.origin)
            if k not in self._dep:
                self._dep[k] = False
                self._dep[k] = any(self._depends_on_local(i) for i in x.origin.inputs)
            return self._dep[k]
        if isinstance(x, (list, tuple)):
            return any(self._depends_on_local(i) for i in x)
        if isinstance(x, dict):
            return any(self._depends_on_local(i) for i in list(x.keys()) + list(x.values()))
        return False

    def _lookup(self, key):
        it = self
        while it is not None:
            if key in it.memo:
                return True, it.memo[key]
            it = it.parent
        return False, None

    def _store(self, app, val):
        """A node is evaluated once per activation of the innermost function whose parameters it depends
        on (that is where the compiler must emit it)."""
        it = self
        while it.parent is not None and not any(it._depends_on_local(i) for i in app.inputs):
            it = it.parent
        it.memo[id(app)] = val

    def run_graph(self, graph, args):
        env = {}
        self._bind(graph.inputs, args, env)
        return self.eval(graph.output, env)

    def _bind(self, inputs, args, env):
        if len(inputs) != len(args):
            raise TypeError("argument count")
        for i, a in zip(inputs, args):
            env[id(i)] = a

    def eval(self, x, env):
        tracer = tr()
        py = tracer.signature.python
        if isinstance(x, tracer.Graph):
            return self._closure(x, env)
        if isinstance(x, tracer.Tracer):
            if id(x) in env:
                return env[id(x)]
            if x.origin is None:
                raise KeyError("free tracer without origin")
            val = self._eval_app(x.origin, env)
            return self._select(x.origin.output, val, x)
        if isinstance(x, list):
            return [self.eval(i, env) for i in x]
        if isinstance(x, tuple):
            return tuple(self.eval(i, env) for i in x)
        if isinstance(x, dict):
            return {self.eval(k, env): self.eval(v, env) for k, v in x.items()}
        if isinstance(x, slice):
            return slice(self.eval(x.start, env), self.eval(x.stop, env), self.eval(x.step, env))
        return x

    def _select(self, out_tree, val, x):
        """The application's output may be a pytree of tracers standing for the elements of `val`."""
        if out_tree is x:
            return val
        if isinstance(out_tree, (list, tuple)):
            for k, o in enumerate(out_tree):
                if o is x:
                    return val[k]
                if isinstance(o, (list, tuple, dict)):
                    try:
                        return self._select(o, val[k], x)
                    except KeyError:
                        pass
        if isinstance(out_tree, dict):
            for k, o in out_tree.items():
                if o is x:
                    return val[k]
        raise KeyError("tracer not found in its origin's output")

    def _closure(self, graph, env):
        interp = self

        def fn(*args, **kwargs):
            env2 = dict(env)
            vals = list(args) + list(kwargs.values())
            interp._bind(graph.inputs, vals, env2)
            sub = Interp(parent=interp, local_inputs=graph.inputs)
            return sub.eval(graph.output, env2)

        return fn

    def _eval_app(self, app, env):
        key = id(app)
        hit, val = self._lookup(key)
        if hit:
            return val
        tracer = tr()
        py = tracer.signature.python
        ev = lambda v: self.eval(v, env)
        if isinstance(app, py.Call):
            f = ev(app.function)
            args = [ev(a) for a in app.args]
            kwargs = {k: ev(v) for k, v in app.kwargs.items()}
            val = f(*args, **kwargs)
        elif isinstance(app, py.CallInplace):
            xs = ev(app.xs)
            f = ev(app.function)
            new = _copy_tree(xs)
            args = [new if a is app.xs else ev(a) for a in app.args]
            kwargs = {k: (new if v is app.xs else ev(v)) for k, v in app.kwargs.items()}
            f(*args, **kwargs)
            val = new
        elif isinstance(app, py.GetAttr):
            val = getattr(ev(app.obj), app.key)
        elif isinstance(app, py.GetItem):
            val = ev(app.obj)[ev(app.key)]
        elif isinstance(app, py.UpdateItem):
            new = _copy_tree(ev(app.obj))
            k, v = ev(app.key), ev(app.value)
            if app.op == "=":
                new[k] = v
            elif app.op == "+=":
                new[k] += v
            elif app.op == "-=":
                new[k] -= v
            else:
                raise NotImplementedError(app.op)
            val = new
        elif isinstance(app, py.Import):
            if app.from_ is None:
                val = importlib.import_module(app.import_)
            else:
                val = getattr(importlib.import_module(app.from_), app.import_)
        elif isinstance(app, py.OperatorApplication):
            ops = [ev(o) for o in app.operands]
            table = {"+": _operator.add, "*": _operator.mul, "<": _operator.lt, "<=": _operator.le, ">": _operator.gt, ">=": _operator.ge, "==": _operator.eq, "!=": _operator.ne, "-": _operator.sub}
            if len(ops) == 2:
                val = table[app.operator](*ops)
            elif len(ops) == 1 and app.operator == "-":
                val = -ops[0]
            else:
                raise NotImplementedError(app.operator)
        elif isinstance(app, py.Builtin):
            val = getattr(_builtins, app.name)
        elif isinstance(app, py.Assert):
            cond = ev(app.condition)
            if not cond:
                raise AssertionError(app.message)
            val = self.eval(app.xs, env)
        elif isinstance(app, py.Constant):
            val = app.value
        elif isinstance(app, tracer.Cast):
            val = ev(app.input)
        else:
            raise NotImplementedError(type(app))
        self._store(app, val)
        self.evaluated.append(type(app).__name__)
        return val


def _copy_tree(x):
    if isinstance(x, np.ndarray):
        return S.wrap(np.array(S.plain(x), dtype=object, copy=True)) if x.dtype == object else x.copy()
    if isinstance(x, list):
        return [_copy_tree(i) for i in x]
    return x


# ---------------------------------------------------------------------------------------------------
# measures


def reachable_apps(graph):
    tracer = tr()
    seen, order = set(), []

    def rec(x):
        if isinstance(x, tracer.Graph):
            rec(x.output)
        elif isinstance(x, tracer.Tracer):
            if x.origin is not None and id(x.origin) not in seen:
                seen.add(id(x.origin))
                order.append(x.origin)
                for i in x.origin.inputs:
                    rec(i)
        elif isinstance(x, (list, tuple)):
            for i in x:
                rec(i)
        elif isinstance(x, dict):
            for k, v in x.items():
                rec(k)
                rec(v)

    rec(graph)
    return order


def measure(graph):
    """Termination measure for the optimiser: size of the *unshared* expansion of the graph, counting
    Call / CallInplace / Cast applications and nested Graph objects (a merge through a shared
    intermediate keeps the node count but shortens a path, so paths are what is counted)."""
    tracer = tr()
    py = tracer.signature.python
    memo = {}

    def size(x):
        if isinstance(x, tracer.Graph):
            k = ("g", id(x))
            if k not in memo:
                memo[k] = 1 + size(x.output)
            return memo[k]
        if isinstance(x, tracer.Tracer):
            if x.origin is None:
                return 0
            k = id(x.origin)
            if k not in memo:
                memo[k] = 0
                own = 1 if isinstance(x.origin, (py.Call, py.CallInplace, tracer.Cast)) else 0
                memo[k] = own + sum(size(i) for i in x.origin.inputs)
            return memo[k]
        if isinstance(x, (list, tuple)):
            return sum(size(i) for i in x)
        if isinstance(x, dict):
            return sum(size(i) for i in list(x.keys()) + list(x.values()))
        return 0

    return size(graph.output) if isinstance(graph, tracer.Graph) else size(graph)


def node_types(graph):
    return sorted({type(a).__name__ for a in reachable_apps(graph)})


# ---------------------------------------------------------------------------------------------------
# seeded builder of well-formed graphs over all IR node types


def user_scale(x, k):
    return x * k


def user_pair(x, y):
    return (x + y, x - y)


def user_inc_inplace(x, k):
    x[...] = x + k


def user_kw(x, *, offset=0):
    return x + offset


class Tick:
    """Counting constant: adds the symbol `tick` and counts its calls. The graph interpreter evaluates every
    application node once (per invocation of its enclosing function); generated code that evaluated a shared node
    twice calls it more often. (The value does NOT depend on the call number: the order in which independent
    applications are evaluated is not fixed by the graph, only their number is.)"""

    def __init__(self):
        self.n = 0

    def reset(self):
        self.n = 0

    def __call__(self, x):
        import z3

        self.n += 1
        return x + z3.Int("tick")

    def __repr__(self):
        return "Tick()"


TICK = Tick()


def build_random_graph(seed, max_nodes=12):
    """Returns (graph, input shapes, description). The graph is built only with einx's own tracer
    constructors. Rules that keep it well-formed: values are tensors of one fixed shape unless noted;
    an in-place node targets a private copy that has no other consumer, and afterwards only the node's output is used; a nested function is
    called in the scope where it is defined."""
    tracer = tr()
    py = tracer.signature.python
    rng = random.Random(seed)
    shape = rng.choice([(2,), (3,), (2, 2), (2, 3)])
    n_in = rng.randint(1, 3)
    inputs = [tracer.signature.classical.Tensor(None, shape=shape) for _ in range(n_in)]
    np_ = py.import_("numpy", as_="np")
    live = list(inputs)  # tensor-valued tracers that may still be read
    dead = set()
    used = []
    desc = []
    k_scale = py.constant(user_scale)
    k_pair = py.constant(user_pair)
    k_inc = py.constant(user_inc_inplace)
    k_kw = py.constant(user_kw)
    three = py.constant(3)
    k_tick = py.constant(TICK)

    def pick():
        c = [v for v in live if id(v) not in dead]
        return rng.choice(c)

    def add(v, what):
        live.append(v)
        desc.append(what)

    n = rng.randint(3, max_nodes)
    for _ in range(n):
        kind = rng.choice(["call", "call", "call2", "kwcall", "operator", "getattr-call", "getitem", "getitem-slices", "inplace", "update", "update-slice", "assert", "cast", "tuple", "nested", "nested-closure", "dict", "constant-arg", "unused", "list-arg", "builtin", "tick", "tick"])
        if kind == "call":
            a, b = pick(), pick()
            add(py.call(py.getattr(np_, rng.choice(["add", "subtract", "multiply", "maximum"])), [a, b]), kind)
        elif kind == "call2":
            add(py.call(py.getattr(np_, "negative"), [pick()]), kind)
        elif kind == "kwcall":
            add(py.call(k_kw, [pick()], {"offset": rng.randint(1, 5)}), kind)
        elif kind == "operator":
            add(py.operator(rng.choice(["+", "*"]), pick(), pick()), kind)
        elif kind == "getattr-call":
            add(py.call(py.getattr(np_, "transpose"), [py.call(py.getattr(np_, "transpose"), [pick()])]), kind)
        elif kind == "getitem":
            v = pick()
            row = py.getitem(v, 0)
            add(py.call(py.getattr(np_, "add"), [pick(), row]), kind)
        elif kind == "getitem-slices":
            # keys with literal bounds, including 0 as a stop and negative steps; every variant rebuilds the full shape
            v = pick()
            n0 = shape[0]
            k = rng.choice([0, 1, n0])
            variant = rng.choice(["split", "reverse-twice", "zero-stop-reversed", "tuple-key"])
            if variant == "split":
                parts = [py.getitem(v, slice(None, k)), py.getitem(v, slice(k, None))]
                add(py.call(py.getattr(np_, "concatenate"), [parts], {"axis": 0}), kind)
            elif variant == "reverse-twice":
                add(py.getitem(py.getitem(v, slice(None, None, -1)), slice(None, None, -1)), kind)
            elif variant == "zero-stop-reversed":
                tail = py.getitem(py.getitem(v, slice(n0 - 1, 0, -1)), slice(None, None, -1))  # rows 1..n0-1
                add(py.call(py.getattr(np_, "concatenate"), [[py.getitem(v, slice(0, 1)), tail]], {"axis": 0}), kind)
            else:
                rest = tuple(slice(None) for _ in shape[1:])
                parts = [py.getitem(v, (slice(None, k),) + rest), py.getitem(v, (slice(k, None),) + rest)]
                add(py.call(py.getattr(np_, "concatenate"), [parts], {"axis": 0}), kind)
        elif kind == "update-slice":
            v = py.call(py.getattr(np_, "copy"), [pick()])
            k = rng.choice([0, 0, 1])
            out = rng.choice([py.setitem, py.additem])(v, slice(0, k) if rng.random() < 0.5 else slice(None, k), rng.randint(1, 5))
            dead.add(id(v))
            add(out, kind)
        elif kind == "inplace":
            # the target of an in-place node has no other consumer (as in einx's own lowering): a private copy
            v = py.call(py.getattr(np_, "copy"), [pick()])
            out = py.call_inplace(v, k_inc, [v, rng.randint(1, 4)])
            dead.add(id(v))
            add(out, kind)
        elif kind == "update":
            v = py.call(py.getattr(np_, "copy"), [pick()])
            out = rng.choice([py.setitem, py.additem, py.subtractitem])(v, 0, rng.randint(1, 5))
            dead.add(id(v))
            add(out, kind)
        elif kind == "assert":
            v = pick()
            cond = py.equal(py.call(py.builtins.len, [py.getattr(v, "shape")]), len(shape))
            add(py.assert_(v, cond, "rank check"), kind)
        elif kind == "cast":
            add(tracer.cast(pick(), lambda origin: tracer.signature.classical.Tensor(origin, shape=shape)), kind)
        elif kind == "tuple":
            res = py.call(k_pair, [pick(), pick()])
            parts = tracer.cast(res, lambda origin: [py.Value(origin), py.Value(origin)])
            if rng.random() < 0.5:
                add(parts[0], kind)
            add(parts[1], kind)
        elif kind == "nested":
            g = py.function(lambda p, q: py.call(py.getattr(np_, "add"), [py.call(k_scale, [p, 2]), q]), args=[py.Value(None), py.Value(None)])
            add(py.call(g, [pick(), pick()]), kind)
        elif kind == "nested-closure":
            outer = pick()
            g = py.function(lambda p: py.call(py.getattr(np_, "multiply"), [p, outer]), args=[py.Value(None)])
            r1 = py.call(g, [pick()])
            if rng.random() < 0.5:
                r1 = py.call(py.getattr(np_, "add"), [r1, py.call(g, [pick()])])  # function used twice
            add(r1, kind)
        elif kind == "dict":
            add(py.call(k_kw, [pick()], {"offset": py.call(py.builtins.len, [py.getattr(pick(), "shape")])}), kind)
        elif kind == "constant-arg":
            add(py.call(k_scale, [pick(), three]), kind)
        elif kind == "unused":
            py.call(py.getattr(np_, "negative"), [pick()])  # value used 0 times: never reaches the output
            desc.append(kind)
        elif kind == "list-arg":
            a, b = pick(), pick()
            cat = py.call(py.getattr(np_, "concatenate"), [[a, b]], {"axis": 0})
            sl = py.getitem(cat, slice(0, shape[0]))
            add(sl, kind)
        elif kind == "tick":
            v = py.call(k_tick, [pick()])
            # consumed at least twice
            add(py.call(py.getattr(np_, "add"), [v, v]), kind)
            add(v, kind)
        elif kind == "builtin":
            nd = py.call(py.builtins.len, [py.getattr(pick(), "shape")])
            add(py.call(k_scale, [pick(), nd]), kind)
    # output: one value, or a tuple of values; make sure several values are consumed several times
    cands = [v for v in live if id(v) not in dead]
    a, b = rng.choice(cands), rng.choice(cands)
    total = py.call(py.getattr(np_, "add"), [a, b])
    if rng.random() < 0.5:
        total = py.call(py.getattr(np_, "add"), [total, rng.choice(cands)])
    if rng.random() < 0.3:
        output = (total, rng.choice(cands))
    else:
        output = total
    graph = tracer.Graph(inputs, output, name="op")
    return graph, [shape] * n_in, desc
