"""Replay of solver counterexamples against the real code: plain numpy arrays, public einx API, fresh
/venv/bin/python process. A replay script is self-contained (needs only numpy + einx)."""

import itertools
import json
import os
import subprocess
import hashlib
from fractions import Fraction

import numpy as np

from . import elem, refsem, runner
from .desc import expand, shape

PY = "/venv/bin/python"

TEMPLATE = r'''#!/venv/bin/python
"""Replay of a counterexample found by /verif (property {prop}): {title}
Exit status 1 and a line starting with REPRODUCED when the real code shows the violation."""
import json, os, sys
HASHSEED = "{hashseed}"  # einx's lowering iterates over sets of axis names: pin the hash seed of the finding
if os.environ.get("PYTHONHASHSEED") != HASHSEED:
    os.environ["PYTHONHASHSEED"] = HASHSEED
    os.execv(sys.executable, [sys.executable] + sys.argv)
import numpy as np
sys.path.insert(0, "/repo")
import einx

SPEC = json.loads(r"""{spec}""")

def arr(a):
    if a["shape"] == [] and a.get("pyscalar"):
        return a["data"]
    x = np.array(a["data"], dtype=a["dtype"]).reshape(a["shape"])
    lay = a.get("layout", "C")
    if lay == "T":
        x = np.ascontiguousarray(x.T).T
    elif lay == "sliced":
        base = np.zeros(x.shape[:-1] + (2 * x.shape[-1],), dtype=x.dtype)
        base[..., ::2] = x
        x = base[..., ::2]
    elif lay.startswith("broadcast:"):
        d = int(lay.split(":")[1])
        x = np.broadcast_to(np.take(x, [0], axis=d), x.shape)
    elif lay == "readonly":
        x.flags.writeable = False
    return x

def tup(v):
    return tuple(tup(x) for x in v) if isinstance(v, list) else v

def close(a, b, tol):
    if isinstance(b, bool) or isinstance(a, (bool, np.bool_)):
        return bool(a) == bool(b)
    if tol == 0:
        return a == b
    return abs(float(a) - float(b)) <= tol * max(1.0, abs(float(a)), abs(float(b)))

def run_call(c):
    args = [arr(a) for a in c["args"]]
    kwargs = {{k: tup(v) for k, v in c["kwargs"].items()}}
    if c.get("backend"):
        kwargs["backend"] = c["backend"]
    return getattr(einx, c["op"])(c["desc"], *args, **kwargs), args

def main():
    c = SPEC["call"]
    print("call: einx.%s(%r, <%d tensors>, **%r) backend=%r" % (c["op"], c["desc"], len(c["args"]), c["kwargs"], c.get("backend")))
    for i, a in enumerate(c["args"]):
        print("  arg%d =" % i, a["data"], a["dtype"], a["shape"])
    try:
        out, args = run_call(c)
    except Exception as e:
        print("raised", type(e).__name__, str(e)[:300].replace("\n", " | "))
        if SPEC["expect"].get("must_not_raise"):
            print("REPRODUCED: a well-formed call failed with", type(e).__name__)
            return 1
        print("NOT-REPRODUCED (exception)")
        return 0
    outs = list(out) if isinstance(out, (tuple, list)) else [out]
    exp = SPEC["expect"]
    tol = exp.get("tol", 0)
    for oi, (o, e) in enumerate(zip(outs, exp["outputs"])):
        o = np.asarray(o)
        if list(o.shape) != e["shape"]:
            print("REPRODUCED: output %d has shape %r, loop notation gives %r" % (oi, list(o.shape), e["shape"]))
            return 1
        for g in e["groups"]:
            got = [o[tuple(p)].item() for p in g["positions"]]
            ok = any(all(close(x, y, tol) for x, y in zip(got, alt)) for alt in g["allowed"])
            if not ok:
                print("REPRODUCED: output %d at %r is %r; loop notation allows %r" % (oi, g["positions"], got, g["allowed"][:6]))
                return 1
    if exp.get("inputs_unchanged") is not None:
        for i in exp["inputs_unchanged"]:
            if not np.array_equal(np.asarray(args[i]), arr(c["args"][i])):
                print("REPRODUCED: argument %d was modified" % i)
                return 1
    print("NOT-REPRODUCED: real result agrees with the loop notation")
    return 0

sys.exit(main())
'''


def enc_array(vals, kind):
    """Object array of Python numbers -> JSON-able literal with dtype."""
    vals = np.asarray(vals, dtype=object) if not isinstance(vals, np.ndarray) else vals
    flat = [elem.norm(v) for v in vals.flat]
    if kind == "bool":
        data = [bool(v) for v in flat]
        dt = "bool"
    elif kind == "uint8":
        data = [int(v) % 256 for v in flat]
        dt = "uint8"
    elif all(isinstance(v, (bool, int)) for v in flat):
        data = [int(v) for v in flat]
        dt = "int64"
    else:
        data = [float(v) for v in flat]
        dt = "float64"
    return {"data": np.array(data, dtype=object).reshape(vals.shape).tolist() if vals.shape != () else data[0], "dtype": dt, "shape": list(vals.shape)}


def _val(v):
    v = elem.norm(v)
    if isinstance(v, Fraction):
        return int(v) if v.denominator == 1 else float(v)
    return v


def conc_arrays(case, model_inputs):
    """Concrete object arrays (python numbers) for a case, from the model."""
    out = []
    for m in model_inputs:
        a = np.empty(np.shape(m), dtype=object)
        mm = np.asarray(m, dtype=object)
        for pos in np.ndindex(*a.shape):
            a[pos] = elem.norm(mm[pos])
        out.append(a)
    return out


def clamp_coords(case, conc):
    """z3 leaves unconstrained symbols arbitrary; coordinates not mentioned in the model may be out of
    range. Clamp them into range (they are irrelevant to the counterexample if unconstrained)."""
    fam = case["family"]
    if fam not in ("get_at", "update"):
        return conc
    et = expand(case["ins"][0])
    nmax = max([s for _, s in refsem.loop_leaves(refsem.active_leaves(et, {}), True)] + [1])
    for i, k in enumerate(case["kinds"]):
        if k == "coord":
            for pos in np.ndindex(*conc[i].shape):
                v = int(conc[i][pos])
                if v < 0:
                    conc[i][pos] = 0
    return conc


def expectation(case, conc):
    """Concrete loop-notation expectation for concrete inputs: per output, shape + groups of positions
    with their allowed value vectors."""
    from . import harness

    fam, op = case["family"], case["op"]
    ins = [(expand(e), a) for e, a in zip(case["ins"], conc)]
    outs = [expand(e) for e in case["outs"]]
    uses_float = False
    res = []
    if fam in ("id", "elementwise", "reduce", "dot", "get_at", "preserve"):
        refs = harness.reference(case, conc)
        for e, r in zip(outs, refs):
            groups = []
            for pos in np.ndindex(*r.shape):
                v = _val(r[pos])
                uses_float |= isinstance(v, float)
                groups.append({"positions": [list(pos)], "allowed": [[v]]})
            res.append({"shape": list(shape(e)), "groups": groups})
    elif fam == "argfind":
        (ei, ai), eo = ins[0], outs[0]
        posarr = np.empty(shape(eo), dtype=object)
        for pos in np.ndindex(*posarr.shape):
            posarr[pos] = pos
        loops = refsem.loop_leaves(refsem.active_leaves(eo, {}), False)
        groups = []
        for combo in itertools.product(*[range(s) for _, s in loops]):
            env = {k: c for (k, _), c in zip(loops, combo)}
            sub = refsem.gather(ei, ai, env)
            ps = refsem.coords_of([refsem.gather(eo, posarr, env)])
            ext = (elem.lane_max if op == "argmax" else elem.lane_min)(list(sub.flat))
            allowed = [list(p) for p in np.ndindex(*sub.shape) if sub[p] == ext]
            groups.append({"positions": [list(p) for p in ps], "allowed": allowed})
        res.append({"shape": list(shape(eo)), "groups": groups})
    elif fam == "update":
        et, at = ins[0]
        eo = outs[0]
        slots = refsem.update_slots(ins, eo)
        tpos, _ = refsem.update_target_positions(et)
        et_bl = refsem.loop_leaves(refsem.active_leaves(et, {}), True)
        groups = []
        for env, bc, tidx in tpos:
            env2 = dict(env)
            env2.update({k: c for (k, _), c in zip(et_bl, bc)})
            oidx = refsem.index_of(eo, env2)
            hits = []
            for senv, cs, uval in slots:
                if any(senv.get(k) != v for k, v in env.items() if k in senv):
                    continue
                if all(int(c) == b for c, b in zip(cs, bc)):
                    hits.append(uval)
            t = at[tidx]
            if op == "add_at":
                allowed = [[_val(elem.lane_sum([t] + hits))]]
            elif op == "subtract_at":
                allowed = [[_val(elem.sub(t, elem.lane_sum(hits)))]]
            else:
                allowed = [[_val(h)] for h in hits] or [[_val(t)]]
            groups.append({"positions": [list(oidx)], "allowed": allowed})
        res.append({"shape": list(shape(eo)), "groups": groups})
    else:
        raise KeyError(fam)
    return {"outputs": res, "tol": 1e-6 if uses_float or op in FLOAT_OPS else 0}


FLOAT_OPS = {"mean", "var", "std", "true_divide", "divide", "logsumexp", "logaddexp", "softmax", "log_softmax"}


def write_script(prop, title, spec, name_hint=""):
    os.makedirs(os.path.join(runner.REPLAY_DIR, prop), exist_ok=True)
    text = json.dumps(spec, indent=0, default=runner.jsonable)
    h = hashlib.sha1((title + text).encode()).hexdigest()[:12]
    path = os.path.join(runner.REPLAY_DIR, prop, f"{name_hint}{h}.py")
    with open(path, "w") as f:
        f.write(TEMPLATE.format(prop=prop, title=title.replace('"""', "'''"), spec=text.replace('"""', '\\"\\"\\"'), hashseed=os.environ.get("PYTHONHASHSEED", "0")))
    return path


def call_spec(case, conc, backend):
    args = [enc_array(a, k) for a, k in zip(conc, case["kinds"])]
    kw = dict(case["kwargs"])
    kw.update(case["opts"])
    return {"op": case["op"], "desc": case["desc"], "args": args, "kwargs": runner.jsonable(kw), "backend": backend}


VENV_PY = os.path.join(runner.ROOT, ".venv", "bin", "python")


def run_script(path, timeout=120, env=None, python=None):
    """Returns (reproduced: bool, output text)."""
    e = dict(os.environ)
    e.pop("PYTHONPATH", None)
    if env:
        e.update(env)
    p = subprocess.run([python or PY, path], capture_output=True, text=True, timeout=timeout, env=e)
    out = p.stdout + p.stderr
    return ("REPRODUCED" in p.stdout and "NOT-REPRODUCED" not in p.stdout and p.returncode == 1), out


def replay_case(prop, case, backend, model_inputs, extra_expect=None):
    """Write + run the replay of a value counterexample. Returns (reproduced, path, output)."""
    conc = clamp_coords(case, conc_arrays(case, model_inputs))
    exp = expectation(case, conc)
    if extra_expect:
        exp.update(extra_expect)
    spec = {"call": call_spec(case, conc, backend), "expect": exp}
    path = write_script(prop, f"einx.{case['op']}({case['desc']!r}) backend={backend}", spec)
    ok, out = run_script(path)
    return ok, path, out
