"""Executed under /venv/bin/python with a given PYTHONHASHSEED (C16): for every corpus call prints the
generated source (graph=True), or the exception class, and a digest of the result on fixed integer data."""
import json
import sys
import warnings

sys.path.insert(0, "/repo")
warnings.simplefilter("ignore")
import numpy as np
import einx


def tup(v):
    return tuple(tup(x) for x in v) if isinstance(v, list) else v


def data(shape, kind, i):
    n = int(np.prod(shape)) if shape else 1
    if kind == "bool":
        return ((np.arange(n) * 7 + i) % 3 == 0).reshape(shape)
    if kind == "coord":
        return np.zeros(shape, dtype=np.int64)  # duplicates everywhere: the order of updates matters most
    return ((np.arange(n, dtype=np.int64) * 13 + 5 * i) % 17 - 4).reshape(shape)


def factory(kind, shape, i):
    """A fresh, short-lived tensor factory per call (kinds differ in the optional keywords they accept)."""
    base = data(shape, "int", i)
    if kind == "factory:plain":
        return lambda shape: base
    if kind == "factory:arg_index":
        return lambda shape, arg_index=7: base + arg_index
    if kind == "factory:name":
        return lambda shape, name="none": base + len(name)
    return lambda shape, **kwargs: base + 100 * len(kwargs)


def build_args(c):
    return [factory(k, s, i) if k.startswith("factory:") else data(s, k, i) for i, (s, k) in enumerate(zip(c["shapes"], c["kinds"]))]


def main():
    corpus = json.load(open(sys.argv[1]))
    out = []
    for c in corpus:
        args = build_args(c)
        kw = {k: tup(v) for k, v in c["kwargs"].items()}
        rec = {}
        try:
            rec["code"] = getattr(einx, c["op"])(c["desc"], *args, graph=True, **kw)
            rec["code2"] = getattr(einx, c["op"])(c["desc"], *args, graph=True, **kw)
        except Exception as e:
            rec["exc"] = type(e).__name__
        try:
            r = getattr(einx, c["op"])(c["desc"], *[a.copy() if hasattr(a, "copy") else a for a in args], **kw)
            rs = r if isinstance(r, (tuple, list)) else [r]
            rec["value"] = [np.asarray(x).tolist() for x in rs]
        except Exception as e:
            rec["value_exc"] = type(e).__name__
        del args
        out.append(rec)
    # every call once more, in the opposite order (each call now has other predecessors): same outcome expected
    for c, rec in reversed(list(zip(corpus, out))):
        args = build_args(c)
        kw = {k: tup(v) for k, v in c["kwargs"].items()}
        try:
            r = getattr(einx, c["op"])(c["desc"], *[a.copy() if hasattr(a, "copy") else a for a in args], **kw)
            rs = r if isinstance(r, (tuple, list)) else [r]
            rec["again"] = [np.asarray(x).tolist() for x in rs]
        except Exception as e:
            rec["again_exc"] = type(e).__name__
        del args
    print("C16GEN " + json.dumps(out))


main()
