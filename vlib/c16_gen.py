"""Executed under /venv/bin/python with a given PYTHONHASHSEED (C16): for every corpus call prints the
generated source (graph=True), or the exception class, and a digest of the result on fixed integer data."""
import json
import sys
import warnings

sys.path.insert(0, "/repo")
warnings.simplefilter("ignore")
import numpy as np
import einx


def tup(v):
    return tuple(tup(x) for x in v) if isinstance(v, list) else v


def data(shape, kind, i):
    n = int(np.prod(shape)) if shape else 1
    if kind == "bool":
        return ((np.arange(n) * 7 + i) % 3 == 0).reshape(shape)
    if kind == "coord":
        return np.zeros(shape, dtype=np.int64)  # duplicates everywhere: the order of updates matters most
    return ((np.arange(n, dtype=np.int64) * 13 + 5 * i) % 17 - 4).reshape(shape)


def main():
    corpus = json.load(open(sys.argv[1]))
    out = []
    for c in corpus:
        args = [data(s, k, i) for i, (s, k) in enumerate(zip(c["shapes"], c["kinds"]))]
        kw = {k: tup(v) for k, v in c["kwargs"].items()}
        rec = {}
        try:
            rec["code"] = getattr(einx, c["op"])(c["desc"], *args, graph=True, **kw)
            rec["code2"] = getattr(einx, c["op"])(c["desc"], *args, graph=True, **kw)
        except Exception as e:
            rec["exc"] = type(e).__name__
        try:
            r = getattr(einx, c["op"])(c["desc"], *[a.copy() for a in args], **kw)
            rs = r if isinstance(r, (tuple, list)) else [r]
            rec["value"] = [np.asarray(x).tolist() for x in rs]
        except Exception as e:
            rec["value_exc"] = type(e).__name__
        out.append(rec)
    print("C16GEN " + json.dumps(out))


main()
