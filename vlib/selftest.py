"""Differential self-test of the SymArray primitive models against real numpy on concrete integers.

Every value-dependent primitive model (vlib/symarray.py FUNC_MODELS / UFUNC_SCALAR / put / ufunc.at / take)
is executed on SymArrays holding Python numbers and compared with what numpy computes on the equivalent
int64 / bool arrays. A disagreement means a model is wrong: the calling check exits with the harness-error
code, never with a verdict.
"""

import random
from fractions import Fraction

import numpy as np

from . import elem, symarray as S


def _cmp(sym, real, tol=1e-9):
    a = np.asarray(S.plain(sym) if isinstance(sym, np.ndarray) else sym, dtype=object)
    b = np.asarray(real)
    if a.shape != b.shape:
        return f"shape {a.shape} vs {b.shape}"
    for pos in np.ndindex(*a.shape):
        x, y = a[pos], b[pos].item() if hasattr(b[pos], "item") else b[pos]
        if elem.is_sym(x):
            import z3

            x = elem.from_value(z3.simplify(x))
        x = elem.norm(x)
        if isinstance(y, (bool, np.bool_)) or isinstance(x, bool):
            if bool(x) != bool(y):
                return f"at {pos}: {x} vs {y}"
        elif isinstance(y, float) or isinstance(x, Fraction):
            if abs(float(x) - float(y)) > tol * max(1.0, abs(float(y))):
                return f"at {pos}: {x} vs {y}"
        else:
            if int(x) != int(y):
                return f"at {pos}: {x} vs {y}"
    return None


def run(seed=0, rounds=3):
    rng = random.Random(seed)
    failures = []
    n_checks = 0

    def check(name, sym_fn, np_fn, *arrays, tol=1e-9):
        nonlocal n_checks
        n_checks += 1
        try:
            sres = sym_fn(*[S.from_concrete(a) if isinstance(a, np.ndarray) else a for a in arrays])
            nres = np_fn(*arrays)
        except Exception as e:  # noqa: BLE001
            failures.append(f"{name}: raised {type(e).__name__}: {e}")
            return
        if isinstance(nres, tuple):
            for s, r in zip(sres, nres):
                m = _cmp(s, r, tol)
                if m:
                    failures.append(f"{name}: {m}")
        else:
            m = _cmp(sres, nres, tol)
            if m:
                failures.append(f"{name}: {m}")

    for _ in range(rounds):
        shp = rng.choice([(3,), (2, 3), (2, 2, 3), (1, 4), (3, 1, 2)])
        x = np.array([rng.randint(-4, 4) for _ in range(int(np.prod(shp)))], dtype=np.int64).reshape(shp)
        y = np.array([rng.randint(-4, 4) for _ in range(int(np.prod(shp)))], dtype=np.int64).reshape(shp)
        ynz = np.where(y == 0, 3, y)
        bx = x > 0
        for uf in ["add", "subtract", "multiply", "maximum", "minimum", "less", "less_equal", "greater", "greater_equal", "equal", "not_equal", "logical_and", "logical_or"]:
            f = getattr(np, uf)
            check(uf, f, f, x, y)
        for uf in ["floor_divide", "true_divide", "divide", "remainder"]:
            f = getattr(np, uf)
            check(uf, f, f, x, ynz)
        check("divmod", np.divmod, np.divmod, x, ynz)
        check("negative", np.negative, np.negative, x)
        check("exp", np.exp, lambda a: np.exp(a.astype(float)), x, tol=1e-9)
        check("log", np.log, lambda a: np.log(a.astype(float)), np.abs(x) + 1, tol=1e-9)
        check("logaddexp", np.logaddexp, lambda a, b: np.logaddexp(a.astype(float), b.astype(float)), x, y, tol=1e-9)
        check("where", np.where, np.where, bx, x, y)
        for ax in [None] + list(range(len(shp))) + ([(0, len(shp) - 1)] if len(shp) > 1 else []):
            for kd in (False, True):
                for rf in ["sum", "prod", "max", "min", "any", "all", "mean", "var", "std", "count_nonzero"]:
                    f = getattr(np, rf)
                    check(f"{rf}[axis={ax},keepdims={kd}]", lambda a, f=f: f(a, axis=ax, keepdims=kd), lambda a, f=f: f(a, axis=ax, keepdims=kd), x, tol=1e-9)
            if not isinstance(ax, tuple):
                for rf in ["argmax", "argmin"]:
                    f = getattr(np, rf)
                    check(f"{rf}[axis={ax}]", lambda a, f=f: f(a, axis=ax), lambda a, f=f: f(a, axis=ax), x)
        for ax in range(len(shp)):
            check(f"sort[{ax}]", lambda a: np.sort(a, axis=ax), lambda a: np.sort(a, axis=ax), x)
            check(f"argsort[{ax}]", lambda a: np.argsort(a, axis=ax), lambda a: np.argsort(a, axis=ax, kind="stable"), x)
        # take / getitem / put / ufunc.at with (concrete-valued) index arrays through the symbolic path
        flat = x.reshape(-1)
        idx = np.array([rng.randrange(flat.shape[0]) for _ in range(5)], dtype=np.int64).reshape(5)
        check("take", lambda a, i: S.sym_take(a, _symidx(i), axis=0), lambda a, i: np.take(a, i, axis=0), flat, idx)
        upd = np.array([rng.randint(-3, 3) for _ in range(5)], dtype=np.int64)
        upd2 = upd[:2]

        def sput(a, i, v):
            a = a.copy()
            S.sym_put(a, _symidx(i), v)
            return a

        def nput(a, i, v):
            a = a.copy()
            np.put(a, i, v)
            return a

        check("put", sput, nput, flat, idx, upd)
        check("put-cycled", sput, nput, flat, idx, upd2)

        def sat(op):
            def f(a, i, v):
                a = a.copy()
                S.sym_ufunc_at(op, a, _symidx(i), v)
                return a

            return f

        def nat(uf):
            def f(a, i, v):
                a = a.copy()
                uf.at(a, i, v)
                return a

            return f

        check("add.at", sat(elem.add), nat(np.add), flat, idx, upd)
        check("subtract.at", sat(elem.sub), nat(np.subtract), flat, idx, upd)
        # ufunc.at ignores the writeable flag (writes through read-only views); np.put honours it
        def sat_ro(a, i, v):
            base = a.copy()
            ro = base.view()
            ro.flags.writeable = False
            S.sym_ufunc_at(elem.add, ro, _symidx(i), v)
            return base

        def nat_ro(a, i, v):
            base = a.copy()
            ro = base.view()
            ro.flags.writeable = False
            np.add.at(ro, i, v)
            return base

        check("add.at[read-only view]", sat_ro, nat_ro, flat, idx, upd)

        def put_ro(putter):
            def f(a, i, v):
                ro = a.copy()
                ro.flags.writeable = False
                try:
                    putter(ro, i, v)
                    return np.array([0])
                except ValueError:
                    return np.array([1])

            return f

        check("put[read-only] raises", put_ro(lambda a, i, v: S.sym_put(a, _symidx(i), v)), put_ro(lambda a, i, v: np.put(a, i, v)), flat, idx, upd)
        idx2 = idx.reshape(5, 1)
        check("add.at[(l,1)]", sat(elem.add), nat(np.add), flat, idx2, upd.reshape(5, 1))
        if len(shp) == 2:
            i0 = np.array([rng.randrange(shp[0]) for _ in range(3)])
            i1 = np.array([rng.randrange(shp[1]) for _ in range(3)])
            check("getitem-fancy", lambda a, p, q: S.sym_getitem_fancy(a, (_symidx(p), _symidx(q))), lambda a, p, q: a[p, q], x, i0, i1)
    # unsigned 8-bit elements (bit-vector terms): numpy computes same-dtype arithmetic modulo 256 and promotes the
    # VALUE when the other operand is wider
    import z3

    def bv(a):
        return S.new(a.shape, lambda idx: z3.BitVecVal(int(a[idx]), 8))

    for _ in range(rounds):
        u = np.array([rng.choice([0, 1, 2, 127, 128, 200, 255]) for _ in range(6)], dtype=np.uint8)
        w = np.array([rng.choice([0, 1, 5, 100, 255]) for _ in range(6)], dtype=np.uint8)
        t = np.array([rng.randrange(-50, 50) for _ in range(6)], dtype=np.int64)
        ix = np.array([rng.randrange(6) for _ in range(6)])
        for name, sfn, nfn in [
            ("uint8 negative", lambda: np.negative(bv(u)), lambda: np.negative(u)),
            ("uint8 + uint8", lambda: np.add(bv(u), bv(w)), lambda: np.add(u, w)),
            ("uint8 - uint8", lambda: np.subtract(bv(u), bv(w)), lambda: np.subtract(u, w)),
            ("int64 - uint8", lambda: np.subtract(S.from_concrete(t), bv(u)), lambda: np.subtract(t, u)),
            ("int64 + negative(uint8)", lambda: np.add(S.from_concrete(t), np.negative(bv(u))), lambda: np.add(t, np.negative(u))),
        ]:
            n_checks += 1
            try:
                m = _cmp(sfn(), nfn())
            except Exception as e:  # noqa: BLE001
                m = f"raised {type(e).__name__}: {e}"
            if m:
                failures.append(f"{name}: {m}")
        for name, ufn, efn in [("subtract.at[int64 <- uint8]", np.subtract, elem.sub), ("add.at[int64 <- uint8]", np.add, elem.add)]:
            n_checks += 1
            try:
                a1 = S.from_concrete(t.copy())
                S.sym_ufunc_at(efn, a1, _symidx(ix), bv(u))
                a2 = t.copy()
                ufn.at(a2, ix, u)
                m = _cmp(a1, a2)
            except Exception as e:  # noqa: BLE001
                m = f"raised {type(e).__name__}: {e}"
            if m:
                failures.append(f"{name}: {m}")
    return {"checks": n_checks, "failures": failures}


def _symidx(i):
    """Index array routed through the *symbolic* code path: wrap values as z3 numerals."""
    import z3

    a = np.empty(np.shape(i), dtype=object)
    ii = np.asarray(i)
    for pos in np.ndindex(*a.shape):
        a[pos] = z3.IntVal(int(ii[pos]))
    return a.view(S.SymArray)
