"""SymArray: an np.ndarray subclass (dtype=object) whose elements are z3 terms.

It passes through einx's real public API (isinstance(x, np.ndarray) is all the numpy backends ask) and
through the real generated code. Data movement and ring arithmetic are executed by numpy's own C code on
the object buffer; value-dependent primitives are modelled symbolically here (see MODELS at the end).
"""

import itertools

import numpy as np
import z3

from . import elem

# counts every numpy-level dispatch on a SymArray: C03 uses it for "no backend computation ran"
DISPATCH = {"n": 0, "log": None}


def _note(name):
    DISPATCH["n"] += 1
    if DISPATCH["log"] is not None:
        DISPATCH["log"].append(name)


def plain(x):
    """View as a base-class object array (no subclass dispatch)."""
    if isinstance(x, SymArray):
        return x.view(np.ndarray)
    return x


def wrap(x):
    if isinstance(x, np.ndarray) and not isinstance(x, SymArray):
        if x.dtype != object:
            x = x.astype(object)
        return x.view(SymArray)
    return x


def obj(x):
    """Anything array-like -> plain object ndarray with normalised elements left as they are."""
    if isinstance(x, SymArray):
        return x.view(np.ndarray)
    if isinstance(x, np.ndarray):
        return x.astype(object) if x.dtype != object else x
    if isinstance(x, (list, tuple)):
        if any(isinstance(e, (np.ndarray, list, tuple)) for e in x):
            parts = [obj(e) for e in x]
            out = np.empty((len(parts),) + parts[0].shape, dtype=object)
            for i, p in enumerate(parts):
                out[i] = p
            return out
        out = np.empty((len(x),), dtype=object)
        for i, e in enumerate(x):
            out[i] = e
        return out
    out = np.empty((), dtype=object)
    out[()] = x
    return out


def new(shape, fill):
    out = np.empty(shape, dtype=object)
    for idx in np.ndindex(*shape):
        out[idx] = fill(idx)
    return out.view(SymArray)


def fresh(name, shape, sort="int"):
    """Array of distinct fresh symbols name_i_j_..."""
    mk = {"int": z3.Int, "real": z3.Real, "bool": z3.Bool, "uint8": lambda n: z3.BitVec(n, 8)}[sort]
    return new(tuple(shape), lambda idx: mk(name + "".join(f"_{i}" for i in idx)))


def from_concrete(arr):
    """Concrete numpy array -> SymArray of Python numbers (used by the model self-test)."""
    arr = np.asarray(arr)
    return new(arr.shape, lambda idx: elem.norm(arr[idx]))


def _map(fn, *arrays):
    """Apply a scalar function under numpy broadcasting."""
    arrs = [obj(a) for a in arrays]
    bs = np.broadcast_arrays(*arrs)
    shape = bs[0].shape
    out = np.empty(shape, dtype=object)
    for idx in np.ndindex(*shape):
        out[idx] = fn(*[b[idx] for b in bs])
    return out.view(SymArray)


def _map2(fn, nout, *arrays):
    arrs = [obj(a) for a in arrays]
    bs = np.broadcast_arrays(*arrs)
    shape = bs[0].shape
    outs = [np.empty(shape, dtype=object) for _ in range(nout)]
    for idx in np.ndindex(*shape):
        r = fn(*[b[idx] for b in bs])
        for o, v in zip(outs, r):
            o[idx] = v
    return tuple(o.view(SymArray) for o in outs)


def _norm_axis(axis, ndim):
    if axis is None:
        return tuple(range(ndim))
    if isinstance(axis, (int, np.integer)):
        axis = (int(axis),)
    axis = tuple(int(a) + ndim if int(a) < 0 else int(a) for a in axis)
    if len(set(axis)) != len(axis) or any(a < 0 or a >= ndim for a in axis):
        raise ValueError(f"invalid axis {axis} for ndim {ndim}")
    return axis


def _lane_reduce(fn, x, axis=None, keepdims=False):
    """fn: ordered list of elements (row-major over the reduced axes) -> element."""
    a = obj(x)
    axes = _norm_axis(axis, a.ndim)
    keep = [i for i in range(a.ndim) if i not in axes]
    moved = np.transpose(a, keep + sorted(axes))
    kshape = tuple(a.shape[i] for i in keep)
    n = 1
    for i in axes:
        n *= a.shape[i]
    moved = moved.reshape(kshape + (n,))
    out = np.empty(kshape, dtype=object)
    for idx in np.ndindex(*kshape):
        out[idx] = fn(list(moved[idx]))
    if keepdims:
        shp = tuple(1 if i in axes else a.shape[i] for i in range(a.ndim))
        out = out.reshape(shp)
    return out.view(SymArray)


def _lane_map(fn, x, axis):
    """fn: list -> list of the same length, applied along one axis."""
    a = obj(x)
    (ax,) = _norm_axis(axis, a.ndim)
    moved = np.moveaxis(a, ax, -1)
    out = np.empty(moved.shape, dtype=object)
    for idx in np.ndindex(*moved.shape[:-1]):
        res = fn(list(moved[idx]))
        for k, v in enumerate(res):
            out[idx + (k,)] = v
    return np.moveaxis(out, -1, ax).view(SymArray)


def _lanes_map(fn, x, axes):
    """fn: list -> list, applied jointly over several axes (row-major order of those axes)."""
    a = obj(x)
    axes = sorted(_norm_axis(axes, a.ndim))
    keep = [i for i in range(a.ndim) if i not in axes]
    perm = keep + axes
    moved = np.transpose(a, perm)
    kshape = moved.shape[: len(keep)]
    lshape = moved.shape[len(keep) :]
    n = int(np.prod(lshape)) if len(lshape) else 1
    flat = moved.reshape(kshape + (n,))
    out = np.empty(flat.shape, dtype=object)
    for idx in np.ndindex(*kshape):
        res = fn(list(flat[idx]))
        for k, v in enumerate(res):
            out[idx + (k,)] = v
    out = out.reshape(kshape + lshape)
    inv = np.argsort(perm)
    return np.transpose(out, inv).view(SymArray)


# ---------------------------------------------------------------------------------------------------
# symbolic store model for np.put / ufunc.at


def _is_concrete_index_array(idx):
    a = obj(idx)
    return all(not elem.is_sym(e) for e in a.flat)


def _flat_positions(a):
    """List of index tuples of `a` in C (logical row-major) order."""
    return list(np.ndindex(*a.shape))


def sym_put(a, ind, v):
    """np.put(a, ind, v) with possibly symbolic indices: sequential stores on the flattened target,
    values cycled when shorter than the index list (numpy's documented behaviour). Writes through to
    the buffer of `a` (so views/aliases observe it, like numpy)."""
    tgt = plain(a)
    if not tgt.flags.writeable:
        raise ValueError("put: output array is read-only")  # np.put checks the flag (ufunc.at does not)
    ind_flat = list(obj(ind).flat)
    v_flat = list(obj(v).flat)
    if len(v_flat) == 0:
        if len(ind_flat) == 0:
            return None
        raise ValueError("cannot put from empty values")
    positions = _flat_positions(tgt)
    n = len(positions)
    for i, ix in enumerate(ind_flat):
        val = v_flat[i % len(v_flat)]
        ix = elem.arith(ix)
        if not elem.is_sym(ix):
            ix = int(ix)
            if ix < -n or ix >= n:
                raise IndexError(f"index {ix} is out of bounds for axis 0 with size {n}")
            tgt[positions[ix % n]] = val
        else:
            for k, pos in enumerate(positions):
                tgt[pos] = elem.ite(ix == k, val, tgt[pos])
    return None


def _force_writeable(arr):
    import warnings

    v = arr.view()
    try:
        with warnings.catch_warnings():
            warnings.simplefilter("ignore")
            v.flags.writeable = True
        return v
    except ValueError:
        return np.lib.stride_tricks.as_strided(arr, shape=arr.shape, strides=arr.strides, writeable=True)


def sym_ufunc_at(binop, a, indices, b):
    """np.<ufunc>.at(a, indices, b) on a 1-D target: unbuffered sequential a[i] = a[i] op b, with b
    broadcast against the index array (numpy's documented behaviour)."""
    tgt = plain(a)
    if not tgt.flags.writeable:
        # numpy's ufunc.at does NOT honour the writeable flag (it writes through read-only views such as
        # np.diagonal / np.broadcast_to results; np.put does check): mirror that
        tgt = _force_writeable(tgt)
    if tgt.ndim != 1:
        raise NotImplementedError("sym_ufunc_at: only 1-D targets are modelled")
    ind = obj(indices)
    if isinstance(indices, tuple):
        if len(indices) != 1:
            raise NotImplementedError("sym_ufunc_at: tuple of several index arrays")
        ind = obj(indices[0])
    else:
        ind = obj(indices)
    # numpy treats an index array of shape (l, 1) on a 1-D target as fancy index with result shape (l, 1)
    vals = obj(b)
    vb = np.broadcast_to(vals, ind.shape)
    n = tgt.shape[0]
    for pos in np.ndindex(*ind.shape):
        ix = elem.arith(ind[pos])
        val = vb[pos]
        if not elem.is_sym(ix):
            ix = int(ix)
            if ix < -n or ix >= n:
                raise IndexError(f"index {ix} is out of bounds for axis 0 with size {n}")
            tgt[ix % n] = binop(tgt[ix % n], val)
        else:
            for k in range(n):
                tgt[k] = elem.ite(ix == k, binop(tgt[k], val), tgt[k])
    return None


def sym_take(a, indices, axis=None):
    src = obj(a)
    ind = obj(indices)
    if _is_concrete_index_array(ind):
        ci = np.array([int(elem.norm(e)) for e in ind.flat], dtype=np.int64).reshape(ind.shape)
        return np.take(src, ci, axis=axis).view(SymArray) if isinstance(np.take(src, ci, axis=axis), np.ndarray) else np.take(src, ci, axis=axis)
    if axis is not None and not (src.ndim == 1 and axis in (0, -1)):
        raise NotImplementedError("sym_take: symbolic indices only on flattened / 1-D sources")
    flat = list(src.flat)
    out = np.empty(ind.shape, dtype=object)
    for pos in np.ndindex(*ind.shape):
        out[pos] = elem.select(flat, ind[pos])
    return out.view(SymArray)


def sym_getitem_fancy(a, key):
    """a[(idx0, idx1, ...)] with symbolic integer index arrays of one common shape (what the
    elementary get_at emits)."""
    src = obj(a)
    idxs = [obj(k) for k in key]
    bs = np.broadcast_arrays(*idxs)
    shape = bs[0].shape
    positions = _flat_positions(src)
    out = np.empty(shape, dtype=object)
    for pos in np.ndindex(*shape):
        acc = None
        comps = [elem.arith(b[pos]) for b in bs]
        for p in reversed(positions):
            val = src[p]
            if acc is None:
                acc = val
            else:
                cond = z3.And(*[elem.z(elem.eq(c, k)) for c, k in zip(comps, p)])
                acc = elem.ite(cond, val, acc)
        out[pos] = acc
    return out.view(SymArray)


# ---------------------------------------------------------------------------------------------------


def _u_divmod(a, b):
    return elem.floordiv(a, b), elem.mod(a, b)


UFUNC_SCALAR = {
    "add": elem.add,
    "subtract": elem.sub,
    "multiply": elem.mul,
    "negative": elem.neg,
    "true_divide": elem.truediv,
    "divide": elem.truediv,
    "floor_divide": elem.floordiv,
    "remainder": elem.mod,
    "maximum": elem.maximum,
    "minimum": elem.minimum,
    "less": elem.lt,
    "less_equal": elem.le,
    "greater": elem.gt,
    "greater_equal": elem.ge,
    "equal": elem.eq,
    "not_equal": elem.ne,
    "logical_and": elem.logical_and,
    "logical_or": elem.logical_or,
    "logical_not": elem.logical_not,
    "exp": elem.exp,
    "log": elem.log,
    "sqrt": elem.sqrt,
    "square": elem.square,
    "logaddexp": lambda a, b: elem.logaddexp(a, b),
    "positive": elem.arith,
}

UFUNC_REDUCE = {
    "add": elem.lane_sum,
    "multiply": elem.lane_prod,
    "maximum": elem.lane_max,
    "minimum": elem.lane_min,
    "logical_and": elem.lane_all,
    "logical_or": elem.lane_any,
}


def _f_where(cond, x=None, y=None):
    if x is None or y is None:
        raise NotImplementedError("np.where(cond) without branches")
    return _map(elem.ite, cond, x, y)


def _f_sort(a, axis=-1, kind=None, order=None, stable=None):
    return _lane_map(elem.lane_sort, a, axis)


def _f_argsort(a, axis=-1, kind=None, order=None, stable=None):
    return _lane_map(elem.lane_argsort, a, axis)


def _scalarize(r):
    return r


def _reducer(lane_fn):
    def f(a, axis=None, dtype=None, out=None, keepdims=False, **kw):
        if out is not None:
            raise NotImplementedError("out=")
        kw.pop("initial", None)
        kw.pop("where", None)
        return _lane_reduce(lane_fn, a, axis=axis, keepdims=bool(keepdims) if keepdims is not np._NoValue else False)

    return f


def _f_argfind(lane_fn):
    def f(a, axis=None, out=None, keepdims=False):
        arr = obj(a)
        if axis is None:
            arr = arr.reshape(-1)
            axis = 0
        return _lane_reduce(lane_fn, arr, axis=axis, keepdims=bool(keepdims) if keepdims is not np._NoValue else False)

    return f


def _f_var(a, axis=None, dtype=None, out=None, ddof=0, keepdims=False, **kw):
    if ddof != 0:
        raise NotImplementedError("ddof")
    return _lane_reduce(elem.lane_var, a, axis=axis, keepdims=bool(keepdims) if keepdims is not np._NoValue else False)


def _f_std(a, axis=None, dtype=None, out=None, ddof=0, keepdims=False, **kw):
    if ddof != 0:
        raise NotImplementedError("ddof")
    return _lane_reduce(elem.lane_std, a, axis=axis, keepdims=bool(keepdims) if keepdims is not np._NoValue else False)


def _f_count_nonzero(a, axis=None, keepdims=False):
    return _lane_reduce(elem.lane_count_nonzero, a, axis=axis, keepdims=keepdims)


def _f_put(a, ind, v, mode="raise"):
    return sym_put(a, ind, v)


def _f_take(a, indices, axis=None, out=None, mode="raise"):
    return sym_take(a, indices, axis=axis)


def _f_asarray(a, dtype=None, **kw):
    return a


def _f_shape(a):
    return plain(a).shape


FUNC_MODELS = {
    np.where: _f_where,
    np.sort: _f_sort,
    np.argsort: _f_argsort,
    np.sum: _reducer(elem.lane_sum),
    np.prod: _reducer(elem.lane_prod),
    np.max: _reducer(elem.lane_max),
    np.min: _reducer(elem.lane_min),
    np.amax: _reducer(elem.lane_max),
    np.amin: _reducer(elem.lane_min),
    np.any: _reducer(elem.lane_any),
    np.all: _reducer(elem.lane_all),
    np.mean: _reducer(elem.lane_mean),
    np.var: _f_var,
    np.std: _f_std,
    np.count_nonzero: _f_count_nonzero,
    np.argmax: _f_argfind(elem.lane_argmax),
    np.argmin: _f_argfind(elem.lane_argmin),
    np.put: _f_put,
    np.take: _f_take,
}

# functions delegated to numpy's own implementation on the object buffer (pure data movement / ring
# arithmetic); anything not listed here or in FUNC_MODELS raises, so an unmodelled primitive can never
# silently produce a wrong term
FUNC_NATIVE = {
    np.reshape,
    np.transpose,
    np.broadcast_to,
    np.diagonal,
    np.concatenate,
    np.split,
    np.array_split,
    np.flip,
    np.roll,
    np.moveaxis,
    np.swapaxes,
    np.squeeze,
    np.expand_dims,
    np.stack,
    np.ravel,
    np.einsum,
    np.matmul,
    np.dot,
    np.tensordot,
    np.copy,
    np.shape,
    np.ndim,
    np.size,
    np.broadcast_arrays,
    np.atleast_1d,
    np.tile,
    np.repeat,
    np.trace,
    np.outer,
    np.inner,
    np.vdot,
    np.empty_like,
    np.zeros_like,
    np.ones_like,
    np.full_like,
    np.result_type,
    np.can_cast,
}


def _wrap_tree(r):
    if isinstance(r, np.ndarray):
        return wrap(r) if r.dtype == object else r
    if isinstance(r, tuple):
        return tuple(_wrap_tree(e) for e in r)
    if isinstance(r, list):
        return [_wrap_tree(e) for e in r]
    return r


class UnmodelledPrimitive(Exception):
    pass


class SymArray(np.ndarray):
    __array_priority__ = 1000

    def __array_finalize__(self, obj):
        pass

    # -- ufuncs --------------------------------------------------------------------------------
    def __array_ufunc__(self, ufunc, method, *inputs, out=None, **kwargs):
        name = ufunc.__name__
        _note(f"ufunc:{name}.{method}")
        if method == "__call__":
            kwargs.pop("casting", None)
            kwargs.pop("dtype", None)
            if kwargs.pop("where", True) is not True:
                raise UnmodelledPrimitive(f"{name}(where=...)")
            if kwargs:
                raise UnmodelledPrimitive(f"{name} kwargs {sorted(kwargs)}")
            if name == "matmul":
                res = wrap(np.matmul(*[plain(i) if isinstance(i, np.ndarray) else i for i in inputs]))
            elif name == "divmod":
                res = _map2(_u_divmod, 2, *inputs)
            elif name in UFUNC_SCALAR:
                res = _map(UFUNC_SCALAR[name], *inputs)
            else:
                raise UnmodelledPrimitive(f"ufunc {name}")
            if out is not None:
                outs = out if isinstance(out, tuple) else (out,)
                ress = res if isinstance(res, tuple) else (res,)
                for o, r in zip(outs, ress):
                    if o is not None:
                        plain(o)[...] = plain(r)
                return out[0] if len(outs) == 1 else out
            return res
        if method == "at":
            if name == "add":
                return sym_ufunc_at(elem.add, inputs[0], inputs[1], inputs[2])
            if name == "subtract":
                return sym_ufunc_at(elem.sub, inputs[0], inputs[1], inputs[2])
            raise UnmodelledPrimitive(f"ufunc {name}.at")
        if method == "reduce":
            if name not in UFUNC_REDUCE:
                raise UnmodelledPrimitive(f"ufunc {name}.reduce")
            axis = kwargs.get("axis", 0)
            keepdims = kwargs.get("keepdims", False)
            return _lane_reduce(UFUNC_REDUCE[name], inputs[0], axis=axis, keepdims=bool(keepdims))
        raise UnmodelledPrimitive(f"ufunc {name}.{method}")

    # -- numpy functions ---------------------------------------------------------------------
    def __array_function__(self, func, types, args, kwargs):
        _note(f"func:{getattr(func, '__name__', func)}")
        if func in FUNC_MODELS:
            return FUNC_MODELS[func](*args, **kwargs)
        if func in FUNC_NATIVE:
            return _wrap_tree(super().__array_function__(func, types, args, kwargs))
        raise UnmodelledPrimitive(f"numpy function {getattr(func, '__name__', func)}")

    # -- indexing --------------------------------------------------------------------------------
    def __getitem__(self, key):
        _note("getitem")
        if elem.is_sym(key):
            key = (key,)
        if isinstance(key, tuple) and any(elem.is_sym(k) for k in key):
            if len(key) == self.ndim and all(elem.is_sym(k) or isinstance(k, (int, np.integer)) for k in key):
                return sym_getitem_fancy(self, tuple(obj(k) for k in key))[()]
            raise UnmodelledPrimitive("symbolic scalar index mixed with slices")
        if isinstance(key, tuple) and any(isinstance(k, np.ndarray) and k.dtype == object for k in key):
            if all(isinstance(k, np.ndarray) for k in key) and len(key) == self.ndim:
                if all(_is_concrete_index_array(k) for k in key):
                    ck = tuple(np.array([int(elem.norm(e)) for e in obj(k).flat], dtype=np.int64).reshape(obj(k).shape) for k in key)
                    return wrap(plain(self)[ck])
                return sym_getitem_fancy(self, key)
            raise UnmodelledPrimitive("mixed symbolic fancy indexing")
        if isinstance(key, np.ndarray) and key.dtype == object:
            if self.ndim == 1:
                return sym_take(self, key, axis=0)
            raise UnmodelledPrimitive("symbolic fancy indexing on ndim > 1")
        r = super().__getitem__(key)
        return r

    # object-dtype ndarray methods that numpy implements through ufuncs / functions on `self`
    def sum(self, axis=None, dtype=None, out=None, keepdims=False, **kw):
        return np.sum(self, axis=axis, keepdims=keepdims)

    def prod(self, axis=None, dtype=None, out=None, keepdims=False, **kw):
        return np.prod(self, axis=axis, keepdims=keepdims)

    def max(self, axis=None, out=None, keepdims=False, **kw):
        return np.max(self, axis=axis, keepdims=keepdims)

    def min(self, axis=None, out=None, keepdims=False, **kw):
        return np.min(self, axis=axis, keepdims=keepdims)

    def mean(self, axis=None, dtype=None, out=None, keepdims=False, **kw):
        return np.mean(self, axis=axis, keepdims=keepdims)

    def var(self, axis=None, dtype=None, out=None, ddof=0, keepdims=False, **kw):
        return np.var(self, axis=axis, ddof=ddof, keepdims=keepdims)

    def std(self, axis=None, dtype=None, out=None, ddof=0, keepdims=False, **kw):
        return np.std(self, axis=axis, ddof=ddof, keepdims=keepdims)

    def any(self, axis=None, out=None, keepdims=False, **kw):
        return np.any(self, axis=axis, keepdims=keepdims)

    def all(self, axis=None, out=None, keepdims=False, **kw):
        return np.all(self, axis=axis, keepdims=keepdims)

    def argmax(self, axis=None, out=None, keepdims=False):
        return np.argmax(self, axis=axis, keepdims=keepdims)

    def argmin(self, axis=None, out=None, keepdims=False):
        return np.argmin(self, axis=axis, keepdims=keepdims)

    def take(self, indices, axis=None, out=None, mode="raise"):
        return sym_take(self, indices, axis=axis)

    def put(self, indices, values, mode="raise"):
        return sym_put(self, indices, values)

    def sort(self, axis=-1, kind=None, order=None):
        plain(self)[...] = plain(_f_sort(self, axis=axis))

    def argsort(self, axis=-1, kind=None, order=None):
        return _f_argsort(self, axis=axis)

    def __bool__(self):
        raise UnmodelledPrimitive("truth value of a symbolic array")

    def __repr__(self):
        return "SymArray(" + np.array2string(plain(self), separator=", ") + ")"

    __str__ = __repr__


def snapshot(a):
    """Cell-wise snapshot (term identity) + metadata, for C09."""
    p = plain(a)
    return {
        "shape": p.shape,
        "strides": p.strides,
        "writeable": bool(p.flags.writeable),
        "cells": [p[idx] for idx in np.ndindex(*p.shape)],
    }
