"""Shared check plumbing: process pool, evidence files, known findings, exit codes.

Exit codes: 0 = held on everything explored (inconclusive items are listed in the evidence, never counted
as proofs), 1 = at least one reproduced violation not listed in known_findings.json, 3 = harness error
(a vacuity twin passed, a counterexample did not reproduce, a model self-test failed).
"""

import json
import multiprocessing as mp
import os
import sys
import time
import traceback

ROOT = os.path.dirname(os.path.dirname(os.path.abspath(__file__)))
EVIDENCE_DIR = os.path.join(ROOT, "evidence")
REPLAY_DIR = os.path.join(ROOT, "replays")
KNOWN = os.path.join(ROOT, "known_findings.json")
HARNESS_ERROR = 3


def tier():
    t = os.environ.get("VERIF_TIER", "quick")
    return t if t in ("quick", "thorough") else "quick"


def seed():
    try:
        return int(os.environ.get("VERIF_SEED", "0"))
    except ValueError:
        return 0


def nprocs():
    try:
        return max(1, min(16, int(os.environ.get("VERIF_PROCS", "16")), os.cpu_count() or 1))
    except ValueError:
        return 8


def _guard(args):
    fn, item = args
    try:
        return fn(item)
    except BaseException as e:  # noqa: BLE001
        return {"status": "harness-error", "error": f"{type(e).__name__}: {e}", "trace": traceback.format_exc()[-2000:], "item": repr(item)[:500]}


def pmap(fn, items, procs=None, chunksize=4):
    """Order-preserving parallel map over picklable items (fork start method: einx and z3 are imported
    lazily inside the workers)."""
    items = list(items)
    procs = procs or nprocs()
    if procs == 1 or len(items) <= 1:
        return [_guard((fn, it)) for it in items]
    ctx = mp.get_context("fork")
    with ctx.Pool(procs) as pool:
        return pool.map(_guard, [(fn, it) for it in items], chunksize=chunksize)


def load_known():
    try:
        with open(KNOWN) as f:
            return json.load(f)
    except FileNotFoundError:
        return {"findings": [], "fixed": []}


def match_known(prop, sig, known=None):
    """A violation signature (dict) matches a known finding iff every key of the finding's `match`
    equals the signature's value. Fixed entries never match."""
    known = known or load_known()
    for f in known.get("findings", []):
        if f.get("property") != prop:
            continue
        m = f.get("match", {})
        if m and all(sig.get(k) == v for k, v in m.items()):
            return f
    return None


class Report:
    """Collects outcome of one check run and writes evidence + verdict lines."""

    def __init__(self, prop, level):
        self.prop = prop
        self.level = level
        self.t0 = time.time()
        self.violations = []  # (signature, replay path, text)
        self.known_hits = []
        self.harness_errors = []
        self.inconclusive = []
        self.coverage = {}
        self.assumptions = []

    def violation(self, sig, replay, text=""):
        k = match_known(self.prop, sig)
        if k is not None:
            self.known_hits.append((k, sig, replay))
        else:
            self.violations.append((sig, replay, text))

    def harness_error(self, text):
        self.harness_errors.append(text)

    def finish(self):
        wall = time.time() - self.t0
        os.makedirs(EVIDENCE_DIR, exist_ok=True)
        cov = dict(self.coverage)
        cov.setdefault("inconclusive", len(self.inconclusive))
        cov["inconclusive_items"] = self.inconclusive[:40]
        cov["known_findings_matched"] = [{"what": k.get("what"), "signature": s} for k, s, _ in self.known_hits]
        cov["harness_errors"] = self.harness_errors[:20]
        ev = {
            "property_id": self.prop,
            "tier": tier(),
            "seed": seed(),
            "level": self.level,
            "coverage": cov,
            "assumptions": self.assumptions,
            "wall_s": round(wall, 3),
            "violations": len(self.violations),
        }
        path = os.path.join(EVIDENCE_DIR, f"{self.prop}.json")
        with open(path, "w") as f:
            json.dump(ev, f, indent=1, default=str)
        seen = set()
        for k, sig, replay in self.known_hits:
            key = k.get("what")
            if key in seen:
                continue
            seen.add(key)
            print(f"KNOWN-FINDING: property={self.prop} {k.get('what')}")
        for sig, replay, text in self.violations:
            print(f"VIOLATION property={self.prop} replay={replay}")
            if text:
                print("  " + text.replace("\n", "\n  ")[:2000])
        for h in self.harness_errors[:20]:
            print(f"HARNESS-ERROR property={self.prop} {h}"[:2000])
        n_inc = len(self.inconclusive)
        print(f"[{self.prop}] tier={tier()} seed={seed()} violations={len(self.violations)} known={len(self.known_hits)} inconclusive={n_inc} harness_errors={len(self.harness_errors)} wall={wall:.1f}s evidence={path}")
        if self.violations:
            sys.exit(1)
        if self.harness_errors:
            sys.exit(HARNESS_ERROR)
        sys.exit(0)


def einx_functions_touched():
    """Names of einx modules imported in this process (coarse 'functions encoded' record)."""
    return sorted(m for m in sys.modules if m.startswith("einx._src"))


def jsonable(x):
    import numpy as np
    from fractions import Fraction

    if isinstance(x, dict):
        return {str(k): jsonable(v) for k, v in x.items()}
    if isinstance(x, (list, tuple)):
        return [jsonable(v) for v in x]
    if isinstance(x, np.ndarray):
        return jsonable(x.tolist())
    if isinstance(x, (np.integer,)):
        return int(x)
    if isinstance(x, (np.floating,)):
        return float(x)
    if isinstance(x, (np.bool_,)):
        return bool(x)
    if isinstance(x, Fraction):
        return float(x) if x.denominator != 1 else int(x)
    if isinstance(x, (str, int, float, bool)) or x is None:
        return x
    return str(x)


class ReplayBudget:
    """Sequential replays in the parent process are capped: once `n` findings were replayed the remaining
    solver-level disagreements of the run are only counted (status 'sat-not-replayed' in the evidence)."""

    def __init__(self, n):
        self.left = n

    def take(self):
        if self.left <= 0:
            return False
        self.left -= 1
        return True
