"""Executed in a fresh /venv/bin/python per history (C06): runs a sequence of public einx calls and prints
the outcome of each as JSON. No dependency besides numpy + einx."""
import hashlib
import json
import re
import sys
import warnings

sys.path.insert(0, "/repo")
warnings.simplefilter("ignore")
import numpy as np
import einx


def tup(v):
    return tuple(tup(x) for x in v) if isinstance(v, list) else v


def bad_factory(shape):
    return np.zeros(tuple(shape) + (1,))


def make_factory(kind):
    """A fresh, short-lived factory object per call: nothing but the call itself refers to it."""
    import functools

    if kind == "plain":
        return lambda shape: np.ones(shape)
    if kind == "name":
        return lambda shape, name: np.ones(shape) * 2
    if kind == "arg_index":
        return lambda shape, arg_index: np.ones(shape) * (3 + arg_index)
    if kind == "signature":
        return lambda shape, signature: np.ones(shape) * 4
    if kind == "kwargs":
        return lambda shape, **kwargs: np.ones(shape) * (5 + len(kwargs))
    if kind == "partial":
        return functools.partial(lambda shape, fill: np.full(shape, fill), fill=6.0)
    if kind == "partial-name":
        return functools.partial(lambda shape, name, fill: np.full(shape, fill), fill=7.0)
    if kind == "method":

        class F:
            def make(self, shape):
                return np.ones(shape) * 8

        return F().make
    if kind == "callable-object":

        class G:
            def __call__(self, shape, name=None):
                return np.ones(shape) * 9

        return G()
    raise ValueError(kind)


import dataclasses
import typing


@dataclasses.dataclass(frozen=True)
class ScaledSum:
    """Callable value objects: ScaledSum(2) == ScaledSum(2.0) and their hashes agree, but they are different
    user functions (integer vs floating result)."""

    factor: object

    def __call__(self, x, axis):
        return np.sum(x, axis=axis) * self.factor


class ScaledAdd(typing.NamedTuple):
    factor: object

    def __call__(self, *xs):
        out = xs[0]
        for x in xs[1:]:
            out = out + x
        return out * self.factor


_ADAPTED = {}


def adapted(name):
    """One adapted operation per user function and process (its compiled-function cache lives on that object)."""
    import einx.numpy

    if name not in _ADAPTED:
        kind, fname = name.split(":", 1)
        if fname == "option-sensitive":
            # result depends on the option's value, its sign bit and its Python type
            f = lambda x, *, opt: np.copysign(x, opt) * (1 + abs(opt)) + (0.5 if type(opt) is float else 0.25 if type(opt) is bool else 0.0)  # noqa: E731
        elif fname.startswith("value-object:"):
            factor = eval(fname.split(":", 1)[1], {})  # noqa: S307 - literal from the check's own history description
            f = ScaledSum(factor) if kind == "reduce" else ScaledAdd(factor)
        else:
            g = getattr(np, fname)
            f = (lambda x, axis: g(x, axis=axis)) if kind == "reduce" else (lambda *xs: g(*xs))
        _ADAPTED[name] = einx.numpy.adapt_numpylike_reduce(f) if kind == "reduce" else einx.numpy.adapt_numpylike_elementwise(f)
    return _ADAPTED[name]


def outcome_of(call):
    args = []
    for i, s in enumerate(call["shapes"]):
        if s == "bad-factory":
            args.append(bad_factory)
        elif isinstance(s, str) and s.startswith("factory:"):
            args.append(make_factory(s.split(":", 1)[1]))
        elif s == "scalar":
            args.append(call["scalar"])
        else:
            n = int(np.prod(s)) if s else 1
            args.append((np.arange(n, dtype=np.int64) * 7 % 11 + i).reshape(s))
    kw = {k: tup(v) for k, v in call["kwargs"].items()}
    if call.get("graph"):
        kw["graph"] = True
    try:
        fn = adapted(call["adapter"]) if call.get("adapter") else getattr(einx, call["op"])
        if call.get("with_backend"):
            with einx.backend.get(call["with_backend"]):
                r = fn(call["desc"], *args, **kw)
        else:
            r = fn(call["desc"], *args, **kw)
    except Exception as e:
        del args
        return {"exc": type(e).__name__}
    if isinstance(r, str):
        # the header comment shows repr() of constants: memory addresses differ between interpreter processes
        return {"code": re.sub(r"0x[0-9a-fA-F]+", "0x?", r)}
    if isinstance(r, dict):
        return {"value": json.dumps({k: np.asarray(v).tolist() for k, v in sorted(r.items())})}
    if isinstance(r, bool):
        return {"value": r}
    del args
    import gc

    gc.collect()
    rs = r if isinstance(r, (tuple, list)) else [r]
    try:
        return {"value": [np.asarray(x).tolist() for x in rs], "shape": [list(np.shape(x)) for x in rs], "dtype": [str(np.asarray(x).dtype) for x in rs]}
    except Exception:
        return {"value": repr(r)}


def main():
    spec = json.loads(sys.argv[1])
    outs = [outcome_of(c) for c in spec["calls"]]
    import einx._src.tracer.graph as g
    from einx._src.frontend.backend import registry

    state = {"dependon_depth": len(getattr(g._dependon, "stack", [])), "use_stack_depth": len(registry.state.use_stack)}
    print("C06PROBE " + json.dumps({"outcomes": outs, "state": state}))


main()
