"""Executed in a fresh /venv/bin/python per history (C06): runs a sequence of public einx calls and prints
the outcome of each as JSON. No dependency besides numpy + einx."""
import hashlib
import json
import re
import sys
import warnings

sys.path.insert(0, "/repo")
warnings.simplefilter("ignore")
import numpy as np
import einx


def tup(v):
    return tuple(tup(x) for x in v) if isinstance(v, list) else v


def bad_factory(shape):
    return np.zeros(tuple(shape) + (1,))


def outcome_of(call):
    args = []
    for i, s in enumerate(call["shapes"]):
        if s == "bad-factory":
            args.append(bad_factory)
        elif s == "scalar":
            args.append(call["scalar"])
        else:
            n = int(np.prod(s)) if s else 1
            args.append((np.arange(n, dtype=np.int64) * 7 % 11 + i).reshape(s))
    kw = {k: tup(v) for k, v in call["kwargs"].items()}
    if call.get("graph"):
        kw["graph"] = True
    try:
        if call.get("with_backend"):
            with einx.backend.get(call["with_backend"]):
                r = getattr(einx, call["op"])(call["desc"], *args, **kw)
        else:
            r = getattr(einx, call["op"])(call["desc"], *args, **kw)
    except Exception as e:
        return {"exc": type(e).__name__}
    if isinstance(r, str):
        return {"code": r}
    if isinstance(r, dict):
        return {"value": json.dumps({k: np.asarray(v).tolist() for k, v in sorted(r.items())})}
    if isinstance(r, bool):
        return {"value": r}
    rs = r if isinstance(r, (tuple, list)) else [r]
    try:
        return {"value": [np.asarray(x).tolist() for x in rs], "shape": [list(np.shape(x)) for x in rs], "dtype": [str(np.asarray(x).dtype) for x in rs]}
    except Exception:
        return {"value": repr(r)}


def main():
    spec = json.loads(sys.argv[1])
    outs = [outcome_of(c) for c in spec["calls"]]
    import einx._src.tracer.graph as g
    from einx._src.frontend.backend import registry

    state = {"dependon_depth": len(getattr(g._dependon, "stack", [])), "use_stack_depth": len(registry.state.use_stack)}
    print("C06PROBE " + json.dumps({"outcomes": outs, "state": state}))


main()
