"""E4: bounded model checking of einx's BackendRegistry with z3 (C10).

The micro-step skeleton is re-derived from the AST of einx/_src/frontend/backend.py at every run: for each
BackendRegistry method, whether it runs under `with self.use_lock:`, that it loads `self.state`, which
BackendRegistryState method it applies, and that it stores the result back to `self.state`. A call is then
the two atomic steps A = (acquire if locked; read shared state into a private snapshot) and
B = (write f(snapshot) to the shared state; release if locked). (Acquire commutes with every step of other
threads that does not touch the lock, release likewise, so merging them with the read / write loses no
behaviour.) Threads, programs and the schedule are encoded as a z3 problem; the assertion is linearizability
at call granularity.
"""

import ast
import itertools

import z3

MAX_DEPTH = 4  # bound on the with-stack depth in the abstract state


# ---------------------------------------------------------------------------------------------------
# skeleton extraction


def extract_skeleton(path="/repo/einx/_src/frontend/backend.py"):
    """{method: {'locked': bool, 'reads_state', 'writes_state', 'state_method', 'accesses': [...]}}.

    'locked' means ATOMIC: every load and every store of `self.state` in the method lies inside one single
    `with self.<...lock...>:` statement. A load outside the lock followed by a store inside it (a "publish"
    of a copy computed from an unlocked snapshot) is not atomic and is modelled as unlocked."""
    with open(path) as f:
        tree = ast.parse(f.read())
    state_methods = set()
    for node in tree.body:
        if isinstance(node, ast.ClassDef) and node.name == "BackendRegistryState":
            state_methods = {fn.name for fn in node.body if isinstance(fn, ast.FunctionDef) and not fn.name.startswith("_")}
    out = {}
    for node in tree.body:
        if isinstance(node, ast.ClassDef) and node.name == "BackendRegistry":
            for fn in node.body:
                if not isinstance(fn, ast.FunctionDef) or fn.name.startswith("__"):
                    continue
                accesses = []  # (kind 'R'|'W', id of the enclosing lock region or None)
                info = {"state_method": None, "lock_expr": None}

                def scan_expr(node_, region):
                    for sub in ast.walk(node_):
                        if isinstance(sub, ast.Attribute) and isinstance(sub.value, ast.Name) and sub.value.id == "self" and sub.attr == "state":
                            accesses.append(("W" if isinstance(sub.ctx, ast.Store) else "R", region))
                        if isinstance(sub, ast.Call) and isinstance(sub.func, ast.Attribute) and sub.func.attr in state_methods and info["state_method"] is None:
                            info["state_method"] = sub.func.attr

                def visit(stmts, region):
                    for st in stmts:
                        if isinstance(st, ast.With):
                            lk = [i for i in st.items if isinstance(i.context_expr, ast.Attribute) and isinstance(i.context_expr.value, ast.Name) and i.context_expr.value.id == "self" and "lock" in i.context_expr.attr]
                            if lk:
                                info["lock_expr"] = ast.unparse(lk[0].context_expr)
                            visit(st.body, id(st) if lk and region is None else region)
                        elif isinstance(st, (ast.If, ast.For, ast.While)):
                            scan_expr(st.test if hasattr(st, "test") else st.iter, region)
                            visit(st.body, region)
                            visit(st.orelse, region)
                        elif isinstance(st, ast.Try):
                            visit(st.body, region)
                            for h in st.handlers:
                                visit(h.body, region)
                            visit(st.orelse, region)
                            visit(st.finalbody, region)
                        else:
                            scan_expr(st, region)

                visit(fn.body, None)
                regions = {r for _, r in accesses}
                info["reads_state"] = any(k == "R" for k, _ in accesses)
                info["writes_state"] = any(k == "W" for k, _ in accesses)
                info["locked"] = bool(accesses) and None not in regions and len(regions) == 1
                info["accesses"] = [(k, "locked" if r is not None else "unlocked") for k, r in accesses]
                out[fn.name] = info
    return out


# ---------------------------------------------------------------------------------------------------
# abstract state and call semantics (validated against the real BackendRegistryState by checks/c10.py)
#   state = (stack: tuple of backend ids, registered: frozenset of backend ids)
#   backend id 0 is the default backend (selected when the stack is empty)


def apply_concrete(call, state):
    """Reference semantics of one whole call on the abstract state: returns (new state, observation)."""
    stack, reg = state
    kind = call[0]
    if kind == "get":
        return (stack, reg), ("selected", stack[-1] if stack else 0)
    if kind == "enter":
        return (stack + (call[1],), reg), ("ok",)
    if kind == "exit":
        if not stack:
            return (stack, reg), ("fail",)
        if stack[-1] != call[1]:
            return (stack, reg), ("fail",)
        return (stack[:-1], reg), ("ok",)
    if kind == "register":
        return (stack, reg | {call[1]}), ("ok",)
    raise KeyError(kind)


def serial_outcomes(programs, init):
    """All (observations per (thread, call), final state) reachable by interleaving WHOLE calls."""
    idx = [[(t, i) for i in range(len(p))] for t, p in enumerate(programs)]
    outs = set()

    def rec(pcs, state, obs):
        if all(pcs[t] == len(programs[t]) for t in range(len(programs))):
            outs.add((tuple(sorted(obs.items())), state))
            return
        for t in range(len(programs)):
            if pcs[t] < len(programs[t]):
                call = programs[t][pcs[t]]
                st2, ob = apply_concrete(call, state)
                if ob == ("fail",):
                    # a failed exit leaves the state; the thread continues (the exception is the observation)
                    pass
                obs2 = dict(obs)
                obs2[(t, pcs[t])] = ob
                pcs2 = list(pcs)
                pcs2[t] += 1
                rec(pcs2, st2, obs2)

    rec([0] * len(programs), init, {})
    return outs


# ---------------------------------------------------------------------------------------------------
# z3 encoding


class SymState:
    """(length, slots[MAX_DEPTH], registered bits) as z3 terms."""

    def __init__(self, ln, slots, reg):
        self.ln, self.slots, self.reg = ln, slots, reg

    @staticmethod
    def fresh(name, nback):
        return SymState(z3.Int(f"{name}_len"), [z3.Int(f"{name}_s{i}") for i in range(MAX_DEPTH)], [z3.Bool(f"{name}_r{b}") for b in range(nback)])

    @staticmethod
    def const(state, nback):
        stack, reg = state
        return SymState(z3.IntVal(len(stack)), [z3.IntVal(stack[i]) if i < len(stack) else z3.IntVal(-1) for i in range(MAX_DEPTH)], [z3.BoolVal(b in reg) for b in range(nback)])

    def eq(self, other):
        cs = [self.ln == other.ln]
        for i in range(MAX_DEPTH):
            cs.append(z3.Implies(self.ln > i, self.slots[i] == other.slots[i]))
        cs += [a == b for a, b in zip(self.reg, other.reg)]
        return z3.And(*cs)

    def eq_const(self, state):
        stack, reg = state
        cs = [self.ln == len(stack)]
        for i, v in enumerate(stack):
            cs.append(self.slots[i] == v)
        cs += [r == (b in reg) for b, r in enumerate(self.reg)]
        return z3.And(*cs)

    def top(self):
        t = z3.IntVal(0)
        for i in range(MAX_DEPTH):
            t = z3.If(self.ln == i + 1, self.slots[i], t)
        return t


def sym_apply(call, s, nback):
    """f(snapshot) and observation as z3 terms; mirrors apply_concrete."""
    kind = call[0]
    if kind == "get":
        return s, ("selected", z3.If(s.ln > 0, s.top(), z3.IntVal(0))), z3.BoolVal(False)
    if kind == "enter":
        slots = [z3.If(s.ln == i, z3.IntVal(call[1]), s.slots[i]) for i in range(MAX_DEPTH)]
        return SymState(s.ln + 1, slots, s.reg), ("ok", None), z3.BoolVal(False)
    if kind == "exit":
        fail = z3.Or(s.ln == 0, s.top() != call[1])
        return SymState(z3.If(fail, s.ln, s.ln - 1), s.slots, s.reg), ("ok", None), fail
    if kind == "register":
        reg = [z3.BoolVal(True) if b == call[1] else r for b, r in enumerate(s.reg)]
        return SymState(s.ln, s.slots, reg), ("ok", None), z3.BoolVal(False)
    raise KeyError(kind)


METHOD_OF = {"get": "get", "enter": "enter", "exit": "exit", "register": "register"}


def encode(programs, init, skeleton, nback):
    """Returns (solver constraints, who vars, obs terms, final state, meta). A thread's micro-ops are
    ('A', call idx) / ('B', call idx) per call; locked per the extracted skeleton."""
    T = len(programs)
    ops = [[(ph, i) for i in range(len(p)) for ph in ("A", "B")] for p in programs]
    N = sum(len(o) for o in ops)
    cons = []
    who = [z3.Int(f"who{k}") for k in range(N)]
    pc = [[z3.Int(f"pc{t}_{k}") for k in range(N + 1)] for t in range(T)]
    shared = [SymState.fresh(f"S{k}", nback) for k in range(N + 1)]
    local = [[SymState.fresh(f"L{t}_{k}", nback) for k in range(N + 1)] for t in range(T)]
    lock = [z3.Int(f"lock{k}") for k in range(N + 1)]
    cons.append(shared[0].eq_const(init))
    cons.append(lock[0] == -1)
    for t in range(T):
        cons.append(pc[t][0] == 0)
        cons.append(pc[t][N] == len(ops[t]))
    # observations: selected backend / failure flag per call, written at the step that executes its B phase
    obs_sel = {(t, i): z3.Int(f"sel{t}_{i}") for t, p in enumerate(programs) for i in range(len(p))}
    obs_fail = {(t, i): z3.Bool(f"fail{t}_{i}") for t, p in enumerate(programs) for i in range(len(p))}
    for k in range(N):
        cons.append(z3.And(who[k] >= 0, who[k] < T))
        step_cases = []
        for t in range(T):
            for j, (ph, ci) in enumerate(ops[t]):
                call = programs[t][ci]
                locked = skeleton[METHOD_OF[call[0]]]["locked"]
                guard = z3.And(who[k] == t, pc[t][k] == j)
                eff = []
                if ph == "A":
                    if locked:
                        eff.append(lock[k] == -1)
                        eff.append(lock[k + 1] == t)
                    else:
                        eff.append(lock[k + 1] == lock[k])
                    eff.append(local[t][k + 1].eq(shared[k]))
                    eff.append(shared[k + 1].eq(shared[k]))
                else:
                    new, ob, fail = sym_apply(call, local[t][k], nback)
                    eff.append(shared[k + 1].eq(new))
                    eff.append(local[t][k + 1].eq(local[t][k]))
                    if locked:
                        eff.append(lock[k + 1] == -1)
                    else:
                        eff.append(lock[k + 1] == lock[k])
                    if ob[0] == "selected":
                        eff.append(obs_sel[(t, ci)] == ob[1])
                    else:
                        eff.append(obs_sel[(t, ci)] == -1)
                    eff.append(obs_fail[(t, ci)] == fail)
                # frame: other threads' locals and pcs
                for u in range(T):
                    eff.append(pc[u][k + 1] == (pc[u][k] + 1 if u == t else pc[u][k]))
                    if u != t:
                        eff.append(local[u][k + 1].eq(local[u][k]))
                step_cases.append(z3.And(guard, *eff))
        cons.append(z3.Or(*step_cases))
    return cons, who, obs_sel, obs_fail, shared[N], ops


def not_linearizable(programs, init, obs_sel, obs_fail, final):
    """z3 formula: the run matches NO serial order of whole calls."""
    outs = serial_outcomes(programs, init)
    clauses = []
    for obs, st in outs:
        same = [final.eq_const(st)]
        for (t, i), ob in obs:
            if ob[0] == "selected":
                same += [obs_sel[(t, i)] == ob[1], z3.Not(obs_fail[(t, i)])]
            elif ob[0] == "fail":
                same += [obs_fail[(t, i)]]
            else:
                same += [z3.Not(obs_fail[(t, i)])]
        clauses.append(z3.Not(z3.And(*same)))
    return z3.And(*clauses), len(outs)


def check(programs, init, skeleton, nback=3, timeout_ms=60000, force_serial=False):
    """Returns (verdict, schedule or None, stats). force_serial=True restricts the schedule to whole calls
    (vacuity twin: must then be unsat)."""
    cons, who, obs_sel, obs_fail, final, ops = encode(programs, init, skeleton, nback)
    bad, n_serial = not_linearizable(programs, init, obs_sel, obs_fail, final)
    s = z3.Solver()
    s.set("timeout", int(timeout_ms))
    for c in cons:
        s.add(c)
    if force_serial:
        # every A step is immediately followed by the same thread's B step
        for k in range(0, len(who) - 1, 2):
            s.add(who[k] == who[k + 1])
    s.add(bad)
    import time

    t0 = time.time()
    r = str(s.check())
    dt = time.time() - t0
    stats = {"steps": len(who), "serial_orders_outcomes": n_serial, "solver_s": dt, "assertions": len(s.assertions())}
    if r != "sat":
        return r, None, stats
    m = s.model()
    sched = [m.eval(w, model_completion=True).as_long() for w in who]
    pcs = [0] * len(programs)
    trace = []
    for t in sched:
        ph, ci = ops[t][pcs[t]]
        trace.append((t, ph, ci))
        pcs[t] += 1
    obs = {f"{t}.{i}": {"selected": m.eval(obs_sel[(t, i)], model_completion=True).as_long(), "fail": bool(z3.is_true(m.eval(obs_fail[(t, i)], model_completion=True)))} for (t, i) in obs_sel}
    return r, {"schedule": trace, "observations": obs}, stats


# ---------------------------------------------------------------------------------------------------
# tracing context stack (tracer/graph.py: depend_on / get_additional_dependencies)


def extract_context_stacks(path="/repo/einx/_src/tracer/graph.py"):
    """From the AST: module-level objects that functions of the module use as a stack through an attribute
    (`X.stack.append/pop`, iteration), how X is constructed, and whether that attribute is per-thread by
    construction: X = threading.local() (or a subclass instance) AND the attribute is only ever created by
    assignment on the instance inside a function. A class-level attribute of a threading.local subclass, a plain
    object, or a module-level list is ONE object for all threads."""
    import ast

    tree = ast.parse(open(path).read())
    classes = {n.name: n for n in tree.body if isinstance(n, ast.ClassDef)}
    objs = {}
    for node in tree.body:
        if isinstance(node, ast.Assign) and len(node.targets) == 1 and isinstance(node.targets[0], ast.Name):
            name = node.targets[0].id
            v = node.value
            if isinstance(v, ast.Call):
                objs[name] = {"ctor": ast.unparse(v.func), "attrs": {}}
            elif isinstance(v, (ast.List, ast.Dict, ast.Set)):
                objs[name] = {"ctor": type(v).__name__, "attrs": {}}
    for fn in ast.walk(tree):
        if not isinstance(fn, (ast.FunctionDef, ast.AsyncFunctionDef)):
            continue
        for n in ast.walk(fn):
            if isinstance(n, ast.Attribute) and isinstance(n.value, ast.Name) and n.value.id in objs:
                rec = objs[n.value.id]["attrs"].setdefault(n.attr, {"assigned_in_function": False, "mutated": False, "read": False})
                if isinstance(n.ctx, ast.Store):
                    rec["assigned_in_function"] = True
                else:
                    rec["read"] = True
            if isinstance(n, ast.Call) and isinstance(n.func, ast.Attribute) and n.func.attr in ("append", "pop", "extend", "insert", "clear"):
                tgt = n.func.value
                if isinstance(tgt, ast.Attribute) and isinstance(tgt.value, ast.Name) and tgt.value.id in objs:
                    objs[tgt.value.id]["attrs"].setdefault(tgt.attr, {"assigned_in_function": False, "mutated": False, "read": False})["mutated"] = True
                if isinstance(tgt, ast.Name) and tgt.id in objs:
                    objs[tgt.id]["attrs"].setdefault("<self>", {"assigned_in_function": False, "mutated": False, "read": False})["mutated"] = True
    out = {}
    for name, o in objs.items():
        for attr, rec in o["attrs"].items():
            if not rec["mutated"]:
                continue
            ctor = o["ctor"]
            local_base = ctor == "threading.local"
            class_attr = False
            if ctor in classes:
                cls = classes[ctor]
                local_base = any(ast.unparse(b) in ("threading.local", "local") for b in cls.bases)
                for st in cls.body:
                    if isinstance(st, ast.Assign) and any(isinstance(t, ast.Name) and t.id == attr for t in st.targets):
                        class_attr = True
                    if isinstance(st, ast.AnnAssign) and isinstance(st.target, ast.Name) and st.target.id == attr and st.value is not None:
                        class_attr = True
            per_thread = bool(local_base and rec["assigned_in_function"] and not class_attr and attr != "<self>")
            out[f"{name}.{attr}"] = {"object": name, "attr": attr, "constructed_by": ctor, "threading_local": local_base, "class_level_attribute": class_attr, "created_per_thread_in_function": rec["assigned_in_function"], "per_thread": per_thread}
    return out


def context_stack_check(per_thread, timeout_ms=30000):
    """Two threads, each running one whole einx call that does  push(own deps); read; pop  on the tracing
    context stack. The schedule is a vector of symbolic thread ids. Serial orders (whole calls) let every read
    see exactly the reader's own entry; z3 searches for a schedule in which some read sees anything else.
    per_thread=True: each thread has its own stack (what threading.local gives); False: one shared stack."""
    import time

    import z3

    nsteps = 6
    sched = [z3.Int(f"cs_sched{i}") for i in range(nsteps)]
    s = z3.Solver()
    s.set("timeout", timeout_ms)
    for x in sched:
        s.add(z3.Or(x == 0, x == 1))
    for t in (0, 1):
        s.add(z3.Sum([z3.If(x == t, 1, 0) for x in sched]) == 3)
    # state: per stack a length and two slots holding the id of the pushing thread
    nst = 2 if per_thread else 1
    length = [z3.IntVal(0) for _ in range(nst)]
    slot = [[z3.IntVal(-1), z3.IntVal(-1)] for _ in range(nst)]
    pc = [z3.IntVal(0), z3.IntVal(0)]
    bad = []
    for i in range(nsteps):
        t = sched[i]
        new_length, new_slot, new_pc = list(length), [list(x) for x in slot], list(pc)
        for tt in (0, 1):
            k = tt if per_thread else 0
            here = t == tt
            is_push, is_read, is_pop = z3.And(here, pc[tt] == 0), z3.And(here, pc[tt] == 1), z3.And(here, pc[tt] == 2)
            # read: the visible stack must be exactly [tt]
            sees_other = z3.Or(length[k] != 1, slot[k][0] != tt)
            bad.append(z3.And(is_read, sees_other))
            new_slot[k][0] = z3.If(z3.And(is_push, length[k] == 0), tt, new_slot[k][0])
            new_slot[k][1] = z3.If(z3.And(is_push, length[k] == 1), tt, new_slot[k][1])
            new_length[k] = z3.If(is_push, new_length[k] + 1, z3.If(is_pop, new_length[k] - 1, new_length[k]))
            new_pc[tt] = z3.If(here, pc[tt] + 1, new_pc[tt])
        length, slot, pc = new_length, new_slot, new_pc
    s.add(z3.Or(*bad))
    t0 = time.time()
    r = str(s.check())
    dt = time.time() - t0
    schedule = None
    if r == "sat":
        m = s.model()
        schedule = [m.eval(x, model_completion=True).as_long() for x in sched]
    return r, schedule, {"solver_s": dt, "steps": nsteps, "threads": 2, "per_thread": per_thread}
