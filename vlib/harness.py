"""Run one family member through the real einx pipeline on SymArrays and decide it with z3."""

import time
import traceback

import numpy as np
import z3

from . import elem, prove, refsem, symarray as S
from .desc import expand, shape

BACKENDS = ["numpy", "numpy.numpylike", "numpy.einsum"]


def einx_mod():
    import einx

    return einx


def build_inputs(case, prefix="t"):
    """Fresh symbolic tensors for the case's inputs."""
    arrs = []
    for i, (e, kind) in enumerate(zip(case["ins"], case["kinds"])):
        sh = shape(expand(e))
        sort = {"int": "int", "coord": "int", "bool": "bool", "real": "real", "uint8": "uint8"}[kind]
        nm = f"{'c' if kind == 'coord' else prefix}{i}"
        arrs.append(S.fresh(nm, sh, sort))
    return arrs


def sem_ins(case, arrs):
    return [(expand(e), S.plain(a)) for e, a in zip(case["ins"], arrs)]


def sem_outs(case):
    return [expand(e) for e in case["outs"]]


def coord_assumptions(case, arrs):
    """Coordinates address existing elements (negative / out-of-range coordinates are outside the claim)."""
    fam = case["family"]
    if fam not in ("get_at", "update"):
        return []
    ins = sem_ins(case, arrs)
    et = ins[0][0]
    coords = ins[1:] if fam == "get_at" else ins[1:-1]
    bshape = [s for _, s in refsem.loop_leaves(refsem.active_leaves(et, {}), True)]
    cons = []
    off = 0
    import itertools

    for e, a in coords:
        lv = refsem.active_leaves(e, {})
        loops = refsem.loop_leaves(lv, False)
        n = None
        for combo in itertools.product(*[range(s) for _, s in loops]):
            env = {k: c for (k, _), c in zip(loops, combo)}
            cs = refsem.coords_of([refsem.gather(e, a, env)])
            n = len(cs)
            for j, c in enumerate(cs):
                if elem.is_sym(c):
                    cons.append(z3.And(c >= 0, c < bshape[off + j]))
        if n is None:
            n = 1
        off += n
    return cons


def reference(case, arrs):
    """Loop-notation reference: list of term arrays (None for assertion-style families)."""
    fam, op = case["family"], case["op"]
    ins, outs = sem_ins(case, arrs), sem_outs(case)
    if fam == "id":
        return refsem.op_id(ins, outs)
    if fam == "elementwise":
        return refsem.op_elementwise(op, ins, outs)
    if fam == "reduce":
        return refsem.op_reduce(op, ins, outs)
    if fam == "dot":
        return refsem.op_dot(ins, outs)
    if fam == "get_at":
        return refsem.op_get_at(ins, outs)
    if fam == "preserve":
        return refsem.op_preserve(op, ins, outs, **case["opts"])
    return None


def call(case, arrs, backend=None, extra=None):
    einx = einx_mod()
    kw = dict(case["kwargs"])
    kw.update(case["opts"])
    if backend is not None:
        kw["backend"] = backend
    if extra:
        kw.update(extra)
    return getattr(einx, case["op"])(case["desc"], *arrs, **kw)


def classify_exception(e):
    einx = einx_mod()
    from einx._src.frontend.errors import CallOperationError

    if isinstance(e, einx.errors.OperationNotSupportedError):
        return "unsupported"
    if isinstance(e, CallOperationError):
        c = e.__cause__
        if isinstance(c, S.UnmodelledPrimitive):
            return "unmodelled"
        if isinstance(c, einx.errors.OperationNotSupportedError):
            return "unsupported"
        return "runtime-error"
    if isinstance(e, S.UnmodelledPrimitive):
        return "unmodelled"
    if isinstance(e, einx.errors.EinxError):
        return "rejected"
    if isinstance(e, (ValueError, TypeError)):
        return "rejected-valueerror"
    return "internal-error"


def as_list(out):
    if isinstance(out, (tuple, list)):
        return list(out)
    return [out]


def decide(case, backend, timeout_ms=20000, arrs=None):
    """Returns a result dict: status in {holds, violation?, unsupported, rejected, unmodelled, unknown,
    runtime-error, internal-error, shape-mismatch}; 'violation?' carries a model and must be replayed."""
    t0 = time.time()
    arrs = arrs or build_inputs(case)
    res = {"backend": backend, "desc": case["desc"], "op": case["op"]}
    # the *_at operations may update their target in place: the reference is computed from a snapshot
    live = arrs
    arrs = [S.wrap(S.plain(a).copy()) for a in live]
    try:
        out = call(case, live, backend)
    except Exception as e:  # noqa: BLE001 - classification of einx's behaviour
        res["status"] = classify_exception(e)
        res["error"] = f"{type(e).__name__}: {str(e)[:300]}"
        res["wall_s"] = time.time() - t0
        return res
    outs = as_list(out)
    want_shapes = [shape(expand(e)) for e in case["outs"]]
    got_shapes = [tuple(np.shape(o)) for o in outs]
    if got_shapes != want_shapes:
        res["status"] = "shape-mismatch"
        res["got"] = got_shapes
        res["want"] = want_shapes
        res["wall_s"] = time.time() - t0
        return res
    assumptions = coord_assumptions(case, arrs)
    fam = case["family"]
    if fam == "argfind":
        obl = refsem.argfind_obligations(case["op"], sem_ins(case, arrs), sem_outs(case), S.plain(outs[0]))
        verdict, model, dt = prove.prove(refsem.argfind_formula(obl), assumptions, timeout_ms)
    elif fam == "update":
        f = refsem.update_formula(case["op"], sem_ins(case, arrs), sem_outs(case)[0], S.plain(outs[0]))
        verdict, model, dt = prove.prove(f, assumptions, timeout_ms)
    else:
        ref = reference(case, arrs)
        verdict, model, dt = prove.prove_equal([(S.plain(wrapnd(o)), r) for o, r in zip(outs, ref)], assumptions, timeout_ms)
    res["solver_s"] = dt
    res["verdict"] = verdict
    if verdict in ("unsat", "trivial"):
        res["status"] = "holds"
    elif verdict == "sat":
        res["status"] = "violation?"
        res["model_inputs"] = [prove.concretise(a, model) for a in arrs]
    else:
        res["status"] = "unknown"
    res["wall_s"] = time.time() - t0
    return res


def wrapnd(o):
    if isinstance(o, np.ndarray):
        return o
    a = np.empty((), dtype=object)
    a[()] = o
    return a
