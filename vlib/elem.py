"""Scalar- and lane-level term semantics shared by the SymArray primitive models and by RefSem.

Everything here works on *elements*: z3 terms (Int / Real / Bool sort) or Python numbers. These are the
mathematical definitions of numpy's value-dependent primitives on one element / one lane; they carry no
knowledge of axes, shapes or einx. They are validated against real numpy on concrete numbers at every
run (vlib/selftest.py).
"""

import math
from fractions import Fraction

import numpy as np
import z3

# ---------------------------------------------------------------------------------------------------
# element kinds


def is_sym(x):
    return isinstance(x, z3.ExprRef)


def is_boolish(x):
    return isinstance(x, (bool, np.bool_)) or (is_sym(x) and z3.is_bool(x))


def norm(x):
    """Normalise a concrete element to a plain Python value; leave z3 terms alone."""
    if is_sym(x):
        return x
    if isinstance(x, (bool, np.bool_)):
        return bool(x)
    if isinstance(x, (int, np.integer)):
        return int(x)
    if isinstance(x, Fraction):
        return x
    if isinstance(x, (float, np.floating)):
        f = float(x)
        if f != f or f in (float("inf"), float("-inf")):
            raise ValueError("non-finite float element")
        return Fraction(f)
    raise TypeError(f"unsupported element type {type(x)}")


def is_bv(x):
    """Element of a fixed-width UNSIGNED integer dtype (uint8 tensors are arrays of 8-bit bit-vector terms)."""
    return is_sym(x) and z3.is_bv(x)


def arith(x):
    """Element as an arithmetic value (bool -> 0/1; unsigned fixed-width -> its mathematical value, which is
    what numpy's promotion to a wider dtype yields)."""
    x = norm(x)
    if is_sym(x):
        if z3.is_bool(x):
            return z3.If(x, z3.IntVal(1), z3.IntVal(0))
        if z3.is_bv(x):
            return z3.BV2Int(x, False)
        return x
    if isinstance(x, bool):
        return int(x)
    return x


def boolean(x):
    """Element as a truth value (number -> != 0)."""
    x = norm(x)
    if is_sym(x):
        if z3.is_bool(x):
            return x
        return x != 0
    return bool(x != 0) if not isinstance(x, bool) else x


def z(x):
    """Element as a z3 term."""
    x = norm(x)
    if is_sym(x):
        return x
    if isinstance(x, bool):
        return z3.BoolVal(x)
    if isinstance(x, int):
        return z3.IntVal(x)
    if isinstance(x, Fraction):
        if x.denominator == 1:
            return z3.RealVal(x.numerator)
        return z3.RealVal(x.numerator) / z3.RealVal(x.denominator)
    raise TypeError(type(x))


def real(x):
    x = arith(x)
    if is_sym(x):
        if z3.is_int(x):
            return z3.ToReal(x)
        return x
    return Fraction(x)


def any_sym(*xs):
    return any(is_sym(x) for x in xs)


def _lift(a, b):
    """Make a pair of arithmetic operands compatible for z3 operators."""
    a, b = arith(a), arith(b)
    if is_sym(a) and not is_sym(b):
        b = _const_like(b, a)
    elif is_sym(b) and not is_sym(a):
        a = _const_like(a, b)
    elif is_sym(a) and is_sym(b):
        if z3.is_int(a) and z3.is_real(b):
            a = z3.ToReal(a)
        elif z3.is_real(a) and z3.is_int(b):
            b = z3.ToReal(b)
    return a, b


def _const_like(c, term):
    if isinstance(c, Fraction) and c.denominator != 1:
        return z3.RealVal(c.numerator) / z3.RealVal(c.denominator)
    c = int(c)
    if z3.is_real(term):
        return z3.RealVal(c)
    return z3.IntVal(c)


# ---------------------------------------------------------------------------------------------------
# scalar operations


def _same_bv(a, b):
    return is_bv(a) and is_bv(b) and a.size() == b.size()


def add(a, b):
    if _same_bv(a, b):
        return a + b  # same unsigned dtype: numpy computes in that dtype (wraps)
    a, b = _lift(a, b)
    return a + b


def sub(a, b):
    if _same_bv(a, b):
        return a - b
    a, b = _lift(a, b)
    return a - b


def mul(a, b):
    if _same_bv(a, b):
        return a * b
    a, b = _lift(a, b)
    return a * b


def neg(a):
    if is_bv(a):
        return -a  # numpy negates an unsigned array in its own dtype: 2**bits - x (0 stays 0)
    return -arith(a)


def truediv(a, b):
    a, b = real(a), real(b)
    if not any_sym(a, b):
        return Fraction(a) / Fraction(b)
    a, b = _lift(a, b)
    return a / b


def floordiv(a, b):
    """Floor division for integers (numpy / Python semantics); reals: floor(a/b) via ToInt."""
    a, b = arith(a), arith(b)
    if not any_sym(a, b):
        if isinstance(a, Fraction) or isinstance(b, Fraction):
            q = Fraction(a) / Fraction(b)
            return Fraction(q.numerator // q.denominator)
        return a // b
    b_conc = None if is_sym(b) else b
    a, b = _lift(a, b)
    if z3.is_int(a) and z3.is_int(b):
        # z3's div is floor for positive divisors and ceil for negative ones
        if b_conc is not None and b_conc > 0:
            return a / b
        if b_conc is not None and b_conc < 0:
            return (-a) / (-b)
        return z3.If(b > 0, a / b, (-a) / (-b))
    return z3.ToReal(z3.ToInt(a / b))


def mod(a, b):
    a, b = arith(a), arith(b)
    return sub(a, mul(floordiv(a, b), b))


def lt(a, b):
    a, b = _lift(a, b)
    return a < b


def le(a, b):
    a, b = _lift(a, b)
    return a <= b


def gt(a, b):
    a, b = _lift(a, b)
    return a > b


def ge(a, b):
    a, b = _lift(a, b)
    return a >= b


def eq(a, b):
    a, b = _lift(a, b)
    if any_sym(a, b):
        return a == b
    return bool(a == b)


def ne(a, b):
    a, b = _lift(a, b)
    if any_sym(a, b):
        return a != b
    return bool(a != b)


def ite(c, a, b):
    c = boolean(c)
    if not is_sym(c):
        return a if c else b
    if is_boolish(a) and is_boolish(b):
        return z3.If(c, z(boolean(a)), z(boolean(b)))
    a, b = _lift(a, b)
    return z3.If(c, z(a), z(b))


def maximum(a, b):
    a, b = _lift(a, b)
    if not any_sym(a, b):
        return a if a >= b else b
    return z3.If(a >= b, a, b)


def minimum(a, b):
    a, b = _lift(a, b)
    if not any_sym(a, b):
        return a if a <= b else b
    return z3.If(a <= b, a, b)


def logical_and(a, b):
    a, b = boolean(a), boolean(b)
    if not any_sym(a, b):
        return a and b
    return z3.And(z(a), z(b))


def logical_or(a, b):
    a, b = boolean(a), boolean(b)
    if not any_sym(a, b):
        return a or b
    return z3.Or(z(a), z(b))


def logical_not(a):
    a = boolean(a)
    if not is_sym(a):
        return not a
    return z3.Not(a)


# transcendental functions are uninterpreted: the checks decide routing of elements, not analysis
_EXP = z3.Function("exp", z3.RealSort(), z3.RealSort())
_LOG = z3.Function("log", z3.RealSort(), z3.RealSort())
_SQRT = z3.Function("sqrt", z3.RealSort(), z3.RealSort())


def _uf(f, a, conc):
    a = real(a)
    if not is_sym(a):
        # concrete evaluation (replay / self-test): ordinary floating point
        return Fraction(conc(float(a)))
    return f(z(a))


def exp(a):
    return _uf(_EXP, a, math.exp)


def log(a):
    return _uf(_LOG, a, math.log)


def sqrt(a):
    return _uf(_SQRT, a, math.sqrt)


def square(a):
    return mul(a, a)


# ---------------------------------------------------------------------------------------------------
# lane (list) operations: the elementary reductions / shape-preserving ops on an *ordered* list


def fold(f, xs, init=None):
    it = iter(xs)
    acc = next(it) if init is None else init
    for x in it:
        acc = f(acc, x)
    return acc


def lane_sum(xs):
    xs = list(xs)
    if len(xs) == 0:
        return 0
    return fold(add, [arith(x) for x in xs])


def lane_prod(xs):
    xs = list(xs)
    if len(xs) == 0:
        return 1
    return fold(mul, [arith(x) for x in xs])


def lane_max(xs):
    return fold(maximum, list(xs))


def lane_min(xs):
    return fold(minimum, list(xs))


def lane_any(xs):
    return fold(logical_or, [boolean(x) for x in xs], False)


def lane_all(xs):
    return fold(logical_and, [boolean(x) for x in xs], True)


def lane_count_nonzero(xs):
    return lane_sum([ite(boolean(x), 1, 0) for x in xs])


def lane_mean(xs):
    xs = list(xs)
    return truediv(lane_sum(xs), len(xs))


def lane_var(xs):
    xs = list(xs)
    m = lane_mean(xs)
    return truediv(lane_sum([square(sub(real(x), m)) for x in xs]), len(xs))


def lane_std(xs):
    return sqrt(lane_var(xs))


def lane_logsumexp(xs):
    # numerically stable definition: m + log(sum(exp(x - m))), m = max(xs); the identity with
    # log(sum(exp(x))) is real analysis and is taken as the definition of the elementary operation
    xs = list(xs)
    m = lane_max(xs)
    return add(log(lane_sum([exp(sub(x, m)) for x in xs])), m)


def logaddexp(*xs):
    return lane_logsumexp(xs)


def lane_softmax(xs):
    xs = list(xs)
    m = lane_max(xs)
    es = [exp(sub(x, m)) for x in xs]
    s = lane_sum(es)
    return [truediv(e, s) for e in es]


def lane_log_softmax(xs):
    xs = list(xs)
    l = lane_logsumexp(xs)
    return [sub(x, l) for x in xs]


def lane_sort(xs):
    """Ascending sort as an odd-even transposition network of min/max (exact for every input)."""
    xs = [arith(x) for x in xs]
    n = len(xs)
    for rnd in range(n):
        for i in range(rnd % 2, n - 1, 2):
            lo, hi = minimum(xs[i], xs[i + 1]), maximum(xs[i], xs[i + 1])
            xs[i], xs[i + 1] = lo, hi
    return xs


def lane_argsort(xs):
    """Stable ascending argsort: position p holds the index i whose rank is p.

    rank(i) = #{j : x_j < x_i} + #{j < i : x_j == x_i}. numpy's default argsort is not documented to
    be stable; checks that use this only compare einx with the loop semantics applied to the *same*
    lane function, so the tie-break rule cancels out.
    """
    xs = [arith(x) for x in xs]
    n = len(xs)
    if not any_sym(*xs):
        return [int(i) for i in np.argsort(np.array([float(x) for x in xs]), kind="stable")]
    ranks = []
    for i in range(n):
        r = z3.IntVal(0)
        for j in range(n):
            if j == i:
                continue
            cond = lt(xs[j], xs[i]) if j > i else le(xs[j], xs[i])
            r = r + z3.If(cond, 1, 0)
        ranks.append(r)
    out = []
    for p in range(n):
        t = z3.IntVal(n - 1)
        for i in range(n - 2, -1, -1):
            t = z3.If(ranks[i] == p, z3.IntVal(i), t)
        out.append(t)
    return out


def lane_argmax(xs):
    """First index of the maximum (numpy's rule)."""
    xs = [arith(x) for x in xs]
    best, idx = xs[0], 0
    for i in range(1, len(xs)):
        c = gt(xs[i], best)
        idx = ite(c, i, idx)
        best = maximum(best, xs[i])
    return idx


def lane_argmin(xs):
    xs = [arith(x) for x in xs]
    best, idx = xs[0], 0
    for i in range(1, len(xs)):
        c = lt(xs[i], best)
        idx = ite(c, i, idx)
        best = minimum(best, xs[i])
    return idx


def select(xs, idx):
    """xs[idx] for a possibly symbolic idx (ite chain; out-of-range -> last element)."""
    xs = list(xs)
    idx = arith(idx)
    if not is_sym(idx):
        return xs[int(idx)]
    acc = xs[-1]
    for k in range(len(xs) - 2, -1, -1):
        acc = ite(idx == k, xs[k], acc)
    return acc


# ---------------------------------------------------------------------------------------------------
# evaluation of terms under a model (for replay): returns Python int / Fraction / bool


def evaluate(term, model):
    if not is_sym(term):
        return norm(term)
    v = model.eval(term, model_completion=True)
    return from_value(v)


def from_value(v):
    if z3.is_true(v):
        return True
    if z3.is_false(v):
        return False
    if z3.is_int_value(v):
        return v.as_long()
    if z3.is_bv_value(v):
        return v.as_long()
    if z3.is_rational_value(v):
        return Fraction(v.numerator_as_long(), v.denominator_as_long())
    if z3.is_algebraic_value(v):
        a = v.approx(20)
        return Fraction(a.numerator_as_long(), a.denominator_as_long())
    raise ValueError(f"cannot concretise {v}")
