"""Confirm a seeded change delivered by a sub-agent in <worktree>/SEEDED/ and keep it as /verif/seeded/<name>/.

usage: tools_confirm.py <name> <property> <agent worktree> "<what it needs to manifest>"
Steps (all in a fresh scratch worktree of /repo HEAD under /tmp, removed afterwards):
  1. demo.py on the unchanged tree must exit 0;  2. patch.diff must apply;  3. demo.py must exit 1;
  4. the pinned test suite must pass with the change.
"""
import json
import os
import shutil
import subprocess
import sys

ROOT = os.path.dirname(os.path.abspath(__file__))


def sh(cmd, cwd=None, env=None, timeout=1800):
    p = subprocess.run(cmd, shell=True, cwd=cwd, env=env, capture_output=True, text=True, timeout=timeout)
    return p.returncode, (p.stdout + p.stderr)


def main():
    name, prop, wt, needs = sys.argv[1:5]
    src = os.path.join(wt, "SEEDED")
    scratch = f"/tmp/confirm_{name}"
    sh(f"git -C /repo worktree remove --force {scratch}")
    rc, out = sh(f"git -C /repo worktree add -q {scratch} HEAD")
    assert rc == 0, out
    ran = []
    try:
        os.makedirs(os.path.join(scratch, "SEEDED"), exist_ok=True)
        shutil.copy(os.path.join(src, "demo.py"), os.path.join(scratch, "SEEDED", "demo.py"))
        demo_text = open(os.path.join(src, "demo.py")).read().replace(wt, scratch)
        open(os.path.join(scratch, "SEEDED", "demo.py"), "w").write(demo_text)
        env = dict(os.environ, PYTHONPATH=scratch)
        env.pop("PYTHONHASHSEED", None)
        cmd_demo = f"cd {scratch} && PYTHONPATH={scratch} /venv/bin/python SEEDED/demo.py"
        rc0, out0 = sh(cmd_demo, env=env)
        ran.append({"cmd": "demo.py on unchanged tree", "exit": rc0})
        rc, out = sh(f"git -C {scratch} apply {os.path.join(src, 'patch.diff')}")
        ran.append({"cmd": "git apply patch.diff", "exit": rc, "out": out[-300:]})
        if rc != 0:
            print("PATCH DOES NOT APPLY", out)
            return 1
        rc1, out1 = sh(cmd_demo, env=env)
        ran.append({"cmd": "demo.py with the change", "exit": rc1, "out": out1[-600:]})
        rct, outt = sh(f"cd {scratch} && PYTHONPATH={scratch} /venv/bin/python -m pytest -q -p no:cacheprovider --timeout=900", env=env)
        import re

        summary = [l for l in outt.splitlines() if re.search(r"\d+ passed", l)]
        summary = summary[-1] if summary else "no summary line"
        ran.append({"cmd": "pytest with the change", "exit": rct, "summary": summary})
        ok = rc0 == 0 and rc1 == 1 and rct == 0 and "85 passed" in summary and "failed" not in summary
        print(f"{name}: demo unchanged exit={rc0}, demo changed exit={rc1}, tests: exit {rct} {summary} -> {'CONFIRMED' if ok else 'NOT CONFIRMED'}")
        if not ok:
            print(out0[-500:], out1[-500:])
            return 1
        dst = os.path.join(ROOT, "seeded", name)
        os.makedirs(dst, exist_ok=True)
        shutil.copy(os.path.join(src, "patch.diff"), os.path.join(dst, "patch.diff"))
        open(os.path.join(dst, "demo.py"), "w").write(open(os.path.join(src, "demo.py")).read().replace(wt, "/repo"))
        if os.path.exists(os.path.join(src, "notes.md")):
            shutil.copy(os.path.join(src, "notes.md"), os.path.join(dst, "notes.md"))
        meta = {"property": prop, "name": name, "needs_to_manifest": needs, "confirmed_in_scratch_worktree": ran, "origin": "independent sub-agent given only the property text and its own worktree"}
        json.dump(meta, open(os.path.join(dst, "meta.json"), "w"), indent=1)
        return 0
    finally:
        sh(f"git -C /repo worktree remove --force {scratch}")


if __name__ == "__main__":
    sys.exit(main())
