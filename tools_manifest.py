"""Regenerates MANIFEST.json from the table below (kept in one place so it stays consistent)."""
import json

TV = "translation_validation"

CHECKS = {
    "C01": dict(
        engine="E1 SymArray + E2 RefSem (z3)",
        cat=TV,
        text="For each (operation, description, shapes, backend) of a bounded family the real pipeline and the real generated code are executed on symbolic tensors and z3 proves the result equal to the loop-notation semantics for ALL tensor contents (and all in-range get_at coordinates). Bounded in shapes/descriptions (enumerated), unbounded in data.",
        note="Trusted: ~25 value-dependent numpy primitive models (self-tested against numpy each run), RefSem, z3. Integers/reals are mathematical (no overflow/rounding). Axis lengths <= 3 (quick) / 4 (thorough).",
        tech="symbolic execution of real code on z3 term arrays + SMT validity query per program",
        ref="DESIGN.md §3 C01",
    ),
    "C14": dict(
        engine="E1 SymArray (z3)",
        cat=TV,
        text="set_at/add_at/subtract_at executed for real on symbolic target/update/coordinate tensors; z3 proves the per-position statement of the property for all contents and all in-range coordinates incl. duplicates; round trip get_at(set_at) decided the same way. Update tensors may be of dtype uint8 (8-bit bit-vector elements: same-width arithmetic wraps, mixing with integers promotes the value); indexed target axes may share a name.",
        note="Trusted: symbolic store model of np.put/np.add.at/np.subtract.at (self-tested vs numpy incl. cycling), z3. Target <= 24 elements, <= 8 update slots (quick).",
        tech="symbolic execution of real code with symbolic scatter indices + SMT validity query",
        ref="DESIGN.md §3 C14",
    ),
    "C07": dict(
        engine="E1 SymArray (z3), relational",
        cat=TV,
        text="Each documented shorthand (implicit output, implicit brackets, numbers, anonymous/written-out ellipses, scalar sizes, nested '->' and ',', adjacent brackets, keepdims, unit coordinate bracket, extra spaces, rearrange) is paired with its long form on the same symbolic tensors; z3 proves equal results for all contents or both raise the same class.",
        note="Oracle is the long form itself. Trusted: SymArray primitive models, z3. Family bounds as C01.",
        tech="relational symbolic execution of two real calls + SMT equivalence query",
        ref="DESIGN.md §3 C07",
    ),
    "C08": dict(
        engine="E1 SymArray (z3), relational",
        cat=TV,
        text="Renaming, input/output permutation, (un)grouping, inversion and composition are applied to family members; both sides run for real on shared symbols and z3 proves the stated relation for all contents.",
        note="Trusted: SymArray primitive models, z3; set_at excluded (winner among duplicates is left open by C14). Family bounds as C01.",
        tech="relational symbolic execution of call pairs/chains + SMT equivalence query",
        ref="DESIGN.md §3 C08",
    ),
}

CHECKS.update({
    "C09": dict(
        engine="E1 SymArray (z3 over aliasing)",
        cat=TV,
        text="Every argument (and its base buffer) is snapshotted cell-wise before the real call on SymArrays in 5 memory layouts (contiguous, transposed view, sliced view, stride-0 broadcast view, read-only); afterwards z3 decides whether any protected cell can differ for some contents/coordinates. Views are numpy's real views, stores go through the symbolic store model. Objects passed as sizes/options (lists, tuples, numpy arrays and scalars) are compared concretely: contents, type, shape, dtype and flags. Calls with one operand too many and a race probe for API-layer objects that outlive a call are included. A concrete shadow run on plain numpy arrays in the same layouts validates the symbolic write-set (and is bug-finding only where the symbolic run is cut short by a comparison inside numpy's C code).",
        note="Trusted: object-dtype buffers share numpy's view/copy semantics; symbolic store model; z3. dtype itself is not varied. Family bounds as C01.",
        tech="symbolic execution of real code with alias-preserving buffers + SMT query on cell changes",
        ref="DESIGN.md §3 C09",
    ),
    "C13": dict(
        engine="E1 SymArray (z3) + concrete monitors",
        cat=TV,
        text="For every sampled subset of argument positions replaced by factories (4 signature kinds) z3 proves OP(..factory..) == OP(..factory's tensor..) for all contents; the shape/keywords each factory receives and the invocation counts (graph=True, first run, cached repeat, rejected call, misbehaving factory incl. array-likes of the right shape) are observed concretely on the same runs; factories are functions, partials, bound methods and callable objects.",
        note="Solver decides result equality; shapes/keywords/counts are concrete observations (stated in evidence). Family bounds as C01.",
        tech="relational symbolic execution (factory vs tensor) + SMT equivalence; concrete invocation monitor",
        ref="DESIGN.md §3 C13",
    ),
    "C15": dict(
        engine="E1 SymArray + E2 RefSem with uninterpreted functions (z3)",
        cat=TV,
        text="The user function wrapped by adapt_numpylike_reduce / adapt_numpylike_elementwise is an UNINTERPRETED z3 function of the ordered sub-tensor (and keyword-only option); RefSem uses the same function as elementary operation, so each unsat holds for every user function of that arity; option values enter it together with their Python type (2, 2.0, True are different arguments). Arguments received (axis tuple, ranks, keywords across cache hits) and misbehaving functions are monitored concretely.",
        note="adapt_with_vmap is outside (no vmap-capable framework installed). Sub-tensor <= 9 elements, <= 3 element-wise inputs.",
        tech="symbolic execution with uninterpreted user function + SMT validity (EUF+LIA)",
        ref="DESIGN.md §3 C15",
    ),
})

CHECKS.update({
    "C04": dict(
        engine="E1 SymArray (z3) + independent IR interpreter",
        cat=TV,
        text="For every compilation (captured from real calls of all operation families, adapters and factories; plus seeded random graphs over all IR node types built with einx's own constructors) z3 proves, for all tensor contents, that the cached function, the stand-alone exec() of the returned text (namespace = only the constants named in its header) and an independent node-by-node interpretation of the graph agree; code objects are compared and graph=True must return that text. A tick-stamped constant exposes double evaluation of shared nodes. Compile-sequence members (2-3 adapted operations with different constants, all compiled before any is evaluated) show that a compilation does not depend on other compilations.",
        note="Trusted: the IR interpreter in vlib/graphs.py (functional semantics for in-place nodes), SymArray models, z3. Random graphs <= 12 nodes (quick) / 25 (thorough). compiler/run.py is outside.",
        tech="translation validation: symbolic execution of generated code vs IR interpretation + SMT equivalence",
        ref="DESIGN.md §3 C04",
    ),
    "C05": dict(
        engine="E1 SymArray (z3) + E3 CrossHair",
        cat=TV,
        text="Real optimiser patterns are applied pass by pass to graphs captured from real calls and to synthetic reshape/transpose/broadcast/concatenate/cast/wrapper chains (all permutation pairs up to rank 3, sampled at 4-5; shape triples up to 24 elements; shared intermediates); graph before/after are compiled by the real compiler and z3 proves equal outputs for all contents. CrossHair executes the real SkipTranspose with symbolic permutations and indices (exhaustive per rank). Every changing pass must decrease a path-count measure (bounded observation of termination).",
        note="Trusted: SymArray models, z3, CrossHair. Termination is observed, not proved.",
        tech="translation validation of optimiser passes (SMT) + CrossHair symbolic execution of the transpose-merge arithmetic",
        ref="DESIGN.md §3 C05",
    ),
})

CHECKS.update({
    "C02": dict(
        engine="E4 z3 constraint systems",
        cat="other",
        text="z3 is the arbiter of 'every assignment of positive integers': for each member (expression list incl. flatten/concat/ellipsis/numbers, shapes incl. unknown ones, keyword sizes; consistent, single-edit corrupted and >= 2**31 variants; plus 12 shared-axis templates x every keyword subset x every single edit) one flat system per ellipsis-count vector is built from the structured description, independently of einx/sympy. einx's solve_axes/solve_shapes/matches outcome is judged: reported values must hold in EVERY model (uniqueness queries unsat), infeasible or ambiguous members must be rejected, members determined by reference unit propagation must be accepted, integers are unbounded (exactness).",
        note="Bounded: ellipsis repetitions <= 4, <= 3 expressions, nested ellipses outside. z3 unknown -> inconclusive. Members are generated by construction + single-edit corruption (z3 adjudicates their class) rather than synthesised by the solver.",
        tech="SMT (nonlinear integer arithmetic) adjudication of the real solver's outcomes: feasibility + uniqueness queries per count vector",
        ref="DESIGN.md §3 C02",
    ),
})

CHECKS.update({
    "C03": dict(
        engine="E3 CrossHair + E4 z3 + E1 SymArray monitor",
        cat="other",
        text="Layer 1: CrossHair symbolically executes the real pre-solve stage (parser, signature/bracket/keyword checks) of all 8 operation families over token sequences; exhaustive per condition. Layer 2: every family member is corrupted by one edit (dimension, rank, keyword, tensor count, axis dropped/duplicated/renamed, one bracket moved/added/removed, arrow/parenthesis edits); z3 decides on the independent constraint system whether the corrupted call is really ill-formed, and an own tokenisation decides the stated bracket rule (an axis is either bracketed or not), the uniqueness of an implicit element-wise output, operand counts of fixed-arity operations and bool-for-int sizes after a valid call; structure probes (groups/numbers/concatenations under ellipses through solve_*/matches/id) may raise no internal class; ill-formed calls must raise a documented class, no call may raise an internal class. Layer 3: SymArray dispatch counter must be 0 when the exception surfaces.",
        note="The sympy-backed solver is cut in layer 1 (sentinel stub). For string-level edits that do not break the bracket rule only 'no internal type' and 'no computation before rejection' are demanded. 13-token alphabet, length 3 (quick) / 4 (thorough).",
        tech="CrossHair symbolic execution of the real entry stage + SMT adjudication of ill-formedness of single-edit corruptions",
        ref="DESIGN.md §3 C03",
    ),
    "C12": dict(
        engine="E3 CrossHair",
        cat="other",
        text="CrossHair (z3-driven) executes the real stage1.parse_op, the real __str__ of the tree classes and the real el_op re-parsing of all operation families over token/chunk sequences selected by symbolic integers: totality with caller-quoting SyntaxErrors, invariance under redundant spaces (between chunks, and at two symbolic redundant-gap positions inside each of 40 valid corpus descriptions), re-print stability; public operations hand the caller's description to the parser verbatim (spy on the parser, whitespace alphabet incl. tab/newline/NBSP) and produce no SyntaxError for ordinary descriptions whatever the rank / the decimal length of sizes. 'Confirmed over all paths' is exhaustive per alphabet and length. Arbitrary-character strings (symbolic str) are bug-finding only.",
        note="Bounds: 13 tokens^3, 9 tokens^4, 17 chunks^2, 12 chunks^3, 8 chunks^3 x 3 spacing flags (quick); larger in thorough. Nothing is claimed beyond the alphabets.",
        tech="CrossHair symbolic execution of the real parser and printer (exhaustive path confirmation)",
        ref="DESIGN.md §3 C12",
    ),
})

CHECKS.update({
    "C11": dict(
        engine="E3 CrossHair",
        cat="other",
        text="CrossHair executes the real BackendRegistryState (_get, _get_by_name, _get_by_tensors, _register_on_import, _check_new_imports, _run_factory, _enter/_exit) on registries of synthetic Backend/InvalidBackend objects; priorities are symbolic unbounded integers (all values and ties) and the argument-type tuple is a symbolic selector; configurations, registration orders, lazy/eager registration with imported/not-imported modules, failing factories and one-step histories are enumerated one condition each; the two synthetic frameworks' tensor classes share their bare class name; histories are stepped with the transaction semantics of BackendRegistry.get (state.get on a copy that replaces the state only on success), including failing lookups. The result must equal a short specification transcribed from the documentation.",
        note="Real framework imports are outside (not installed); sys.modules is stubbed by pre-seeding seen_module_names. 57 conditions (quick).",
        tech="CrossHair symbolic execution of the real registry state machine against a specification function",
        ref="DESIGN.md §3 C11",
    ),
})

CHECKS.update({
    "C06": dict(
        engine="E3 CrossHair (key collisions) + cold/warm replay",
        cat="other",
        text="PARTIAL. Reduction: a warm call differs from a cold one only if two calls with equal cache keys have different cold outcomes, or a failing call leaves state behind. CrossHair searches einx's real key path (_freeze_args/_freeze_value + functools._make_key) for argument pairs of different type that share a key; every pair found (and the CPython-equal representatives 2/2.0, 1/True, 1.0/True) is replayed through the public API in every argument slot, both orders, with and without graph=True: second call in a fresh interpreter vs. after the first call. Failing calls at parse/solve/trace/run time are followed by a valid call and compared the same way, including context-stack depths; context histories (plain call, then the call inside another backend context) and factory histories (short-lived factory objects of 6-9 signature kinds, one kind after the other) and constant histories (adapted user functions: compile A, compile B, call A again) are compared cold vs. warm.",
        note="CrossHair cannot confirm absence of collisions (hash/== realise symbolic values): no counterexample = inconclusive. Arbitrary long histories are covered only through the reduction; compilation determinism is C16's subject.",
        tech="CrossHair counterexample search over the real cache-key functions + differential cold/warm replay",
        ref="DESIGN.md §3 C06",
    ),
})

CHECKS.update({
    "C10": dict(
        engine="E4 z3 bounded model checking",
        cat="model_checking",
        text="PARTIAL (registry and tracing context stack). The read/compute/write micro-steps of BackendRegistry are re-derived from the AST of backend.py at every run (which methods hold the lock, read and write self.state); 2-3 threads run short programs of get / enter / exit / register; the schedule is a vector of symbolic thread ids; z3 searches for a schedule whose per-call observations and final state match no interleaving of whole calls (linearizability). The abstract call semantics are validated against the real BackendRegistryState on all small states; a sat schedule is replayed with real threads gated at the read/write boundaries. The tracing context stack (tracer.graph.depend_on) is classified per-thread/shared from the AST, the classification is validated with two real threads, and z3 searches the push/read/pop interleavings of two calls for a read that sees another call's entry; sat schedules are replayed through the public API with gated threads. The same two-call model is applied to every object that outlives a call and is mutated inside a function without a lock (module-level containers, mutable default arguments, global rebinding; found from the AST of all modules), replayed over all ordered pairs of a pool of first-time calls; iteration over the live sys.modules is replayed against an importing thread.",
        note="Assumed: functools.cache atomic per call; device/namespace stacks of the torch/array-api adapters are outside (frameworks not installed). Bounds: 2 threads (3 thorough), <= 4 calls each, with-stack depth 4.",
        tech="SMT-based bounded model checking of thread interleavings (linearizability) + gated-thread replay",
        ref="DESIGN.md §3 C10",
    ),
})

CHECKS.update({
    "C16": dict(
        engine="E1 SymArray (z3) over seed-enumerated programs",
        cat=TV,
        text="PARTIAL. The configuration quantifier (PYTHONHASHSEED, uuid draws) is enumerated: every corpus call is compiled in 8 (64 thorough) fresh interpreters with different hash seeds. The data quantifier is decided by the solver: whenever the generated texts differ between seeds they are executed on the same SymArrays (symbolic contents, symbolic duplicate-capable coordinates) and z3 proves them equal for all contents; identical texts are discharged syntactically. Exception classes across seeds and the two graph=True texts within one process are compared directly; the corpus includes calls that must be rejected (ambiguous shorthand, single-edit corruptions).",
        note="Hash seed / uuid are not solver variables (they act through CPython's string hashing and os.urandom underneath sympy/numpy). Corpus = program family of C01/C14.",
        tech="per-seed program extraction + SMT equivalence of the generated programs",
        ref="DESIGN.md §3 C16",
    ),
})

NOT_APPLICABLE = {
    "C17": "quantifies over all axis lengths and the syntactic form of generated text; stages 2-4 cannot run with symbolic sizes under any installed engine (sympy, numpy int32 casts), see DESIGN.md §3 C17",
}

ENGINES = [
    {"name": "E1 SymArray", "path": "vlib/symarray.py", "kind_free_text": "symbolic execution of the real einx pipeline and the real generated code on object arrays of z3 terms; z3 decides validity for all tensor contents"},
    {"name": "E2 RefSem", "path": "vlib/refsem.py", "kind_free_text": "independent loop-notation semantics on structured descriptions (oracle)"},
    {"name": "E3 CrossHair", "path": "vlib/xhair.py", "kind_free_text": "CrossHair symbolic execution (z3) of einx's pure-Python units: parser, registry state, cache keys, transpose merge"},
    {"name": "E4 z3 encodings", "path": "vlib/axes.py", "kind_free_text": "hand encodings: axis/rank constraint systems, bounded model checking of the backend registry"},
]


def main():
    import os

    props = [json.loads(l)["id"] for l in open("/verif/properties.jsonl")]
    checks = []
    for pid in props:
        if pid in CHECKS:
            c = CHECKS[pid]
            checks.append(
                {
                    "property_id": pid,
                    "quick_cmd": f"./check {pid} quick",
                    "thorough_cmd": f"./check {pid} thorough",
                    "evidence_file": f"/verif/evidence/{pid}.json",
                    # replays of these checks import /verif modules (graph interpreter, monitors): they need the overlay venv
                    "replay_cmd_template": ("/verif/.venv/bin/python {path}" if pid in ("C04", "C05", "C13", "C15") else "/venv/bin/python {path}"),
                    "engine": c["engine"],
                    "level_claimed": {"category": c["cat"], "text": c["text"], "design_ref": c["ref"]},
                    "level_note": c["note"],
                    "technique": c["tech"],
                }
            )
    na = [{"property_id": p, "reason": r} for p, r in NOT_APPLICABLE.items()]
    missing = [p for p in props if p not in CHECKS and p not in NOT_APPLICABLE]
    for p in missing:
        na.append({"property_id": p, "reason": "check under construction in this session (not yet claimed)"})
    engines = []
    for e in ENGINES:
        if os.path.exists(os.path.join("/verif", e["path"])):
            e = dict(e)
            e["serves_properties"] = [p for p, c in CHECKS.items() if e["name"].split()[0] in c["engine"]]
            engines.append(e)
    m = {
        "version": 1,
        "setup_cmd": "sh /verif/setup.sh",
        "hooks": {
            "guard": "FFERFLO_EINX_VERIF",
            "enable": "no source hooks are needed: every observation point is reached by monkeypatching from the harness process (checks export FFERFLO_EINX_VERIF=1 for completeness)",
            "baseline_off_cmd": "cd /repo && /venv/bin/python -m pytest -ra -q -p no:cacheprovider --timeout=900 --continue-on-collection-errors",
            "source_commits": [],
            "add_only": True,
        },
        "engines": engines,
        "checks": checks,
        "not_applicable": na,
        "notes": "Solver-based checking of the real code; see DESIGN.md. Exit 3 of a check = harness error (never a verdict). Replays pin PYTHONHASHSEED because einx's lowering iterates over sets (C16).",
    }
    with open("/verif/MANIFEST.json", "w") as f:
        json.dump(m, f, indent=1)
    print("claimed:", [c["property_id"] for c in checks], "n/a:", [n["property_id"] for n in na])


if __name__ == "__main__":
    main()
