"""CrossHair harness (C05): the real SkipTranspose pattern on a two-transpose graph built with the real
tracer signature layer; both permutations and the probe index are symbolic. Returns True iff indexing
through the merged permutation equals indexing through the two steps."""

from typing import Tuple

import einx._src.tracer as tracer

_np = tracer.signature.python.import_("numpy", as_="np")
_PATTERN = tracer.optimizer.classical.SkipTranspose(_np.transpose)
_tnp = tracer.signature.numpy()


def _is_perm(p, n):
    return len(p) == n and all(0 <= v < n for v in p) and len(set(p)) == n


def _chain_of(t):
    """Permutations applied on the way from the graph input to tracer t (innermost first)."""
    perms = []
    while t.origin is not None:
        if isinstance(t.origin, tracer.Cast):
            t = t.origin.input
        elif isinstance(t.origin, tracer.signature.python.Call):
            perms.append(tuple(t.origin.args[1]))
            t = t.origin.args[0]
        else:
            raise TypeError(type(t.origin))
    return list(reversed(perms))


def _rewritten(p1, p2, n):
    x = tracer.signature.classical.Tensor(None, shape=(2,) * n)
    y = _tnp.transpose(x, tuple(p1))
    z = _tnp.transpose(y, tuple(p2))
    z = z if isinstance(z.origin, tracer.signature.python.Call) else z.origin.input  # skip the shape cast
    changed, new = _PATTERN(z, lambda v: v)
    if not changed:
        return None
    return _chain_of(new)


def _through(p, idx):
    """Index into the source addressed by index `idx` of transpose(source, p)."""
    n = len(p)
    j = [0] * n
    for k in range(n):
        j[p[k]] = idx[k]
    return tuple(j)


def _holds(p1, p2, idx, n):
    chain = _rewritten(p1, p2, n)
    two_step = _through(p1, _through(p2, idx))
    if chain is None:
        return False  # two consecutive transposes must always be merged (or the no-op one dropped)
    if len(chain) > 1:
        return False
    j = idx
    for p in reversed(chain):
        if not _is_perm(p, n):
            return False
        j = _through(p, j)
    return two_step == j


def cond_rank2(p1: Tuple[int, int], p2: Tuple[int, int], idx: Tuple[int, int]) -> bool:
    """
    pre: _is_perm(p1, 2) and _is_perm(p2, 2)
    pre: all(0 <= i < 5 for i in idx)
    post: _
    """
    return _holds(p1, p2, idx, 2)


def cond_rank3(p1: Tuple[int, int, int], p2: Tuple[int, int, int], idx: Tuple[int, int, int]) -> bool:
    """
    pre: _is_perm(p1, 3) and _is_perm(p2, 3)
    pre: all(0 <= i < 5 for i in idx)
    post: _
    """
    return _holds(p1, p2, idx, 3)


def cond_rank4(p1: Tuple[int, int, int, int], p2: Tuple[int, int, int, int], idx: Tuple[int, int, int, int]) -> bool:
    """
    pre: _is_perm(p1, 4) and _is_perm(p2, 4)
    pre: all(0 <= i < 5 for i in idx)
    post: _
    """
    return _holds(p1, p2, idx, 4)


def twin_rank3_reversed(p1: Tuple[int, int, int], p2: Tuple[int, int, int], idx: Tuple[int, int, int]) -> bool:
    """
    pre: _is_perm(p1, 3) and _is_perm(p2, 3)
    pre: all(0 <= i < 5 for i in idx)
    post: _
    """
    # deliberately wrong: composition in the reversed order must be refuted
    wrong = tuple(p2[p] for p in p1)
    return _through(p1, _through(p2, idx)) == _through(wrong, idx)
