"""CrossHair harness (C06): the REAL cache-key machinery - einx._src.util.lru_cache._freeze_value, CPython's
functools._make_key (what functools.cache uses), frozendict hashing, and the tracer placeholders' __hash__ /
__eq__ - on symbolic argument values. A condition returns True iff "equal cache key implies equal
outcome-relevant signature (types as well as values)" holds for the inputs."""

import functools
import types
from typing import Tuple

import numpy as np

import einx._src.tracer as tracer
from einx._src.util.lru_cache import _freeze_value


def key_of(args, kwargs):
    """The key functools.cache builds for construct_graph_with_cache(args=..., kwargs=...): einx's REAL
    _freeze_args wrapper runs and whatever it hands to the cached function goes through CPython's _make_key
    (the Python twin of the C implementation functools.cache uses)."""
    from einx._src.util.lru_cache import _freeze_args

    captured = {}

    def spy(*a, **k):
        captured["key"] = functools._make_key(a, k, False)

    _freeze_args(spy)(args=list(args), kwargs=dict(kwargs))
    return captured["key"]


def same_key(k1, k2):
    return hash(k1) == hash(k2) and k1 == k2


def signature(v):
    """What the pipeline can distinguish: the value and its Python type, recursively."""
    if isinstance(v, (list, tuple)):
        return ("seq",) + tuple(signature(x) for x in v)
    return (type(v).__name__, v)


def shares_cache_entry(args1, kwargs1, args2, kwargs2):
    return same_key(key_of(args1, kwargs1), key_of(args2, kwargs2))


def _scalar_slot(x, y):
    return not shares_cache_entry(["a -> a b"], {"b": x}, ["a -> a b"], {"b": y}) or signature(x) == signature(y)


def _tuple_slot(x, y, z):
    return not shares_cache_entry(["a -> a b..."], {"b": (x, z)}, ["a -> a b..."], {"b": (y, z)}) or signature(x) == signature(y)


def cond_int_float(x: int, y: float) -> bool:
    """
    pre: x >= 1 and y >= 1.0
    post: _
    """
    return _scalar_slot(x, y)


def cond_int_bool(x: int, y: bool) -> bool:
    """
    pre: x >= 1
    post: _
    """
    return _scalar_slot(x, y)


def cond_float_bool(x: float, y: bool) -> bool:
    """
    pre: x >= 1.0
    post: _
    """
    return _scalar_slot(x, y)


def cond_tuple_int_float(x: int, y: float, z: int) -> bool:
    """
    pre: x >= 1 and y >= 1.0 and z >= 1
    post: _
    """
    return _tuple_slot(x, y, z)


def cond_tuple_int_bool(x: int, y: bool, z: int) -> bool:
    """
    pre: x >= 1 and z >= 1
    post: _
    """
    return _tuple_slot(x, y, z)


def twin_keys_distinguish_types(x: int, y: float) -> bool:
    """
    pre: x >= 1 and y >= 1.0
    post: _
    """
    # deliberately false claim on this tree-independent fact of CPython (1 == 1.0, equal hashes): refuted
    return not same_key(key_of(["d"], {"b": x}), key_of(["e"], {"b": y})) or True if False else not same_key(functools._make_key((), {"b": x}, False), functools._make_key((), {"b": y}, False))


def _T(shape):
    return tracer.signature.classical.Tensor(None, shape=shape)


def _C(shape, t):
    return tracer.signature.classical.ConvertibleTensor(None, shape=shape, concrete=types.SimpleNamespace(type=t))


def kinds_never_collide():
    """Concrete (enumerated) check: equal shapes of different argument kinds never share a key."""
    bad = []
    for s in [(), (2,), (2, 3)]:
        kinds = {"tensor": _T(s), "ndarray": _C(s, np.ndarray), "int": _C((), int), "float": _C((), float), "bool": _C((), bool), "factory": _C(None, types.FunctionType)}
        names = list(kinds)
        for i, a in enumerate(names):
            for b in names[i + 1 :]:
                if shares_cache_entry(["d", kinds[a]], {}, ["d", kinds[b]], {}):
                    bad.append((s, a, b))
    for s1, s2 in [((2, 3), (3, 2)), ((2, 3), (2, 3, 1)), ((6,), (2, 3))]:
        if shares_cache_entry(["d", _T(s1)], {}, ["d", _T(s2)], {}):
            bad.append((s1, s2))
    return bad
