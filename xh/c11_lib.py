"""CrossHair harness library (C11): the REAL BackendRegistryState populated with synthetic Backend /
InvalidBackend instances (real classes). Priorities are symbolic integers; the expected outcome comes from a
short specification function transcribed from docs/source/gettingstarted/backends.rst and the property."""

import sys
import types

import numpy as np

from einx._src.frontend.backend import Backend, BackendRegistryState, InvalidBackend
from einx._src.frontend.errors import BackendResolutionError


def _tensor_class():
    class Tensor:  # two frameworks whose tensor classes have the same bare name (torch.Tensor, tinygrad.Tensor, ...)
        pass

    return Tensor


K1 = _tensor_class()  # tensor type of synthetic framework 1
K2 = _tensor_class()  # tensor type of synthetic framework 2: a different class with the same __name__/__qualname__
assert K1 is not K2 and K1.__name__ == K2.__name__


class KU:  # a type no backend accepts
    pass


ARR = np.zeros(1)
KIND_OBJECTS = {"arr": ARR, "scalar": 3, "fscalar": 2.5, "k1": K1(), "k2": K2(), "unknown": KU()}
ACCEPTS = {0: (np.ndarray,), 1: (K1,), 2: (K2,)}
MODULE = {0: "numpy", 1: "xh_dummy_framework1", 2: "xh_dummy_framework2"}

# backend sets: (name, framework); the first backend of framework 0 is named "numpy" (scalar rule)
CONFIGS = {
    "A": [("numpy", 0), ("numpy.x", 0), ("fw1", 1)],
    "B": [("numpy", 0), ("numpy.x", 0), ("fw1", 1), ("fw1.x", 1)],
    "C": [("numpy", 0), ("fw1", 1), ("fw2", 2), ("fw2.x", 2)],
    "D": [("numpy", 0), ("numpy.x", 0), ("numpy.y", 0)],
}


def make_backend(name, prio, fw):
    acc = ACCEPTS[fw]
    return Backend(ops={}, name=name, priority=prio, optimizations=[], compiler=None, is_supported_tensor=lambda t, acc=acc: isinstance(t, acc), get_shape=None)


def fresh_state():
    st = BackendRegistryState()
    # do not walk the ~1500 real module names under symbolic tracing: they are all "seen"
    st.seen_module_names.update(m for m in sys.modules if not m.startswith("xh_dummy_"))
    return st


def build(cfg, prios, order, lazy=(), failing=(), imported=(1, 2)):
    """Register the configuration's backends in the given order. Frameworks in `lazy` are registered on
    import of their (dummy) module; `imported` lists the frameworks whose module is present in sys.modules
    at lookup time; factories of names in `failing` raise."""
    for fw in (1, 2):
        sys.modules.pop(MODULE[fw], None)
    st = fresh_state()
    spec_backends = CONFIGS[cfg]
    objs = {}
    for i in order:
        name, fw = spec_backends[i]

        def factory(name=name, fw=fw, p=prios[i]):
            if name in failing:
                raise RuntimeError("synthetic import failure")
            b = make_backend(name, p, fw)
            objs[name] = b
            return b

        if fw in lazy:
            st._register_on_import(MODULE[fw], name, factory)
        else:
            st._run_factory(MODULE[fw], name, factory)
    for fw in imported:
        if fw in lazy:
            sys.modules[MODULE[fw]] = types.ModuleType(MODULE[fw])
    return st, objs


def observe(st, backend_arg, tensors):
    try:
        b = st._get(backend_arg, tensors)
    except BackendResolutionError:
        return ("error", "BackendResolutionError")
    except ValueError:
        return ("error", "ValueError")
    if isinstance(b, InvalidBackend):
        return ("invalid", b.name)
    return ("backend", b.name)


def step(st, backend_arg, tensors):
    """One lookup with the transaction semantics of BackendRegistry.get: the real BackendRegistryState.get works
    on a copy, which replaces the state only if the lookup succeeds. Returns (state afterwards, outcome)."""
    try:
        new, b = st.get(backend_arg, tensors)
    except BackendResolutionError:
        return st, ("error", "BackendResolutionError")
    except ValueError:
        return st, ("error", "ValueError")
    if isinstance(b, InvalidBackend):
        return new, ("invalid", b.name)
    return new, ("backend", b.name)


def spec(cfg, prios, kinds, backend_arg=None, stack=(), lazy=(), failing=(), imported=(1, 2)):
    """Documented precedence: backend object > registered name > innermost with-block > tensor types."""
    backends = [(name, fw, prios[i]) for i, (name, fw) in enumerate(CONFIGS[cfg]) if fw not in lazy or fw in imported]
    names = {n for n, _, _ in backends}
    if isinstance(backend_arg, tuple) and backend_arg[0] == "name":
        n = backend_arg[1]
        if n not in names:
            return ("error", "ValueError")
        return ("invalid", n) if n in failing else ("backend", n)
    if stack:
        n = stack[-1]
        return ("invalid", n) if n in failing else ("backend", n)
    scalars = ("scalar", "fscalar")
    accepts = {"arr": 0, "k1": 1, "k2": 2}
    cands = [(n, p) for n, fw, p in backends if n not in failing and any(accepts.get(k) == fw for k in kinds)]
    if all(k in scalars for k in kinds):
        cands = [(n, p) for n, fw, p in backends if n == "numpy"]
        if not cands:
            return ("error", "ValueError")
    if not cands:
        return ("error", "BackendResolutionError")
    top = max(p for _, p in cands)
    best = [n for n, p in cands if p == top]
    if len(best) == 1:
        return ("backend", best[0])
    return ("error", "BackendResolutionError")


def tensors_of(kinds):
    return [KIND_OBJECTS[k] for k in kinds]


def check_lookup(cfg, prios, order, kinds, lazy=(), failing=(), imported=(1, 2), history=None):
    """One lookup by tensor types on a freshly built registry (optionally after one earlier step): the real
    result must equal the specification."""
    st, objs = build(cfg, prios, order, lazy, failing, imported)
    if history is not None:
        if history[0] == "lookup":
            st, _ = step(st, None, tensors_of(history[1]))
        elif history[0] == "failed-lookup-by-name":
            st, _ = step(st, "no-such-backend", [])
        elif history[0] == "failed-lookup-by-type":
            st, _ = step(st, None, [KU()])
        elif history[0] == "register-unrelated":
            st._register(Backend(ops={}, name="unrelated", priority=history[1], optimizations=[], compiler=None, is_supported_tensor=lambda t: False, get_shape=None))
        elif history[0] == "enter-exit":
            b = st._get("numpy", [])
            st._enter(b)
            st._exit(b)
        elif history[0] == "same-lookup-twice":
            st, _ = step(st, None, tensors_of(kinds))
    st, got = step(st, None, tensors_of(kinds))
    want = spec(cfg, prios, kinds, None, (), lazy, failing, imported)
    return got == want


def check_stack_program(cfg, prios, program, kinds):
    """with-blocks entered and left in LIFO order, the same backend possibly entered again around another one
    ('with A: with B: with A: ...'): after every prefix of the program a lookup without backend= must give the
    innermost backend still active, or follow the tensor types when no block is active."""
    st, objs = build(cfg, prios, list(range(len(CONFIGS[cfg]))))
    stack = []
    for step, name in program:
        b = st._get(name, [])
        if step == "enter":
            st = st.enter(b)
            stack.append(name)
        else:
            st = st.exit(b)
            assert stack and stack[-1] == name, "harness: programs are LIFO"
            stack.pop()
        st, got = step_lookup(st, kinds)
        want = spec(cfg, prios, kinds, None, tuple(stack))
        if got != want:
            return False
    return True


def step_lookup(st, kinds):
    return step(st, None, tensors_of(kinds))


def check_precedence(cfg, prios, order, kinds, arg_kind, stack_names, lazy=(), failing=(), imported=(1, 2)):
    st, objs = build(cfg, prios, order, lazy, failing, imported)
    # realise lazily registered backends the way a first lookup by name would
    for n in stack_names:
        st._enter(st._get(n, []))
    if arg_kind[0] == "obj":
        target = st._get(arg_kind[1], [])
        got = observe(st, target, tensors_of(kinds))
        want = ("invalid", arg_kind[1]) if arg_kind[1] in failing else ("backend", arg_kind[1])
        return got == want
    arg = arg_kind[1] if arg_kind[0] == "name" else None
    got = observe(st, arg, tensors_of(kinds))
    want = spec(cfg, prios, kinds, ("name", arg) if arg is not None else None, tuple(stack_names), lazy, failing, imported)
    return got == want


# ---------------------------------------------------------------------------------------------------
# the API layer hands the caller's backend= argument and tensor arguments to the registry as given (the documented
# precedence is decided in ONE place, the registry, whose rules the conditions above cover)

_API_ARGS = [
    (", ", [1, 2.5]),
    (", ", [np.float64(1.0), True]),
    ("a, ", [np.zeros(2), 3]),
    ("a, a", [np.zeros(2), np.ones(2)]),
    (", a", [2, np.ones(2)]),
]
_API_WITH = [None, "numpy.einsum", "numpy.numpylike", "numpy"]
_API_KW = [None, "numpy", "numpy.einsum", "numpy.numpylike"]
_API_OPS = ["add", "multiply", "id"]


def api_forwards(i_args, i_with, i_kw, i_op):
    import einx
    import einx._src.frontend.backend as be

    desc, args = _API_ARGS[i_args]
    opname = _API_OPS[i_op]
    if opname == "id":
        desc = desc + " -> " + desc
    seen = []
    reg = be.registry
    orig = reg.get

    class _Cut(Exception):
        pass

    def spy(backend=None, tensors=None):
        seen.append((backend, list(tensors) if tensors is not None else None))
        if tensors is not None and len(tensors) == len(args):
            raise _Cut()  # the lookup's arguments are all this harness needs: nothing is compiled
        return orig(backend, tensors)

    reg.get = spy
    try:
        kw = {} if _API_KW[i_kw] is None else {"backend": _API_KW[i_kw]}
        try:
            if _API_WITH[i_with] is not None:
                with einx.backend.get(_API_WITH[i_with]):
                    getattr(einx, opname)(desc, *args, graph=True, **kw)
            else:
                getattr(einx, opname)(desc, *args, graph=True, **kw)
        except Exception:  # noqa: BLE001 - unsupported combinations are rejected AFTER the lookup
            pass
    finally:
        del reg.get
    lookups = [s for s in seen if s[1] is not None and len(s[1]) == len(args)]
    if not lookups:
        return False
    backend, tensors = lookups[-1]
    return backend is _API_KW[i_kw] and all(t is a for t, a in zip(tensors, args))
