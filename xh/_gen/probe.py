import sys
sys.path.insert(0, "/verif/xh")
import c12_lib as L


def cond_h2_t0(i1: int, i2: int) -> bool:
    """
    pre: 0 <= i1 < 12 and 0 <= i2 < 12
    post: _
    """
    return L.parse_total(L.text_of(L.TOK12, [0, i1, i2]))


def cond_h2_t4(i1: int, i2: int, i3: int) -> bool:
    """
    pre: 0 <= i1 < 12 and 0 <= i2 < 12 and 0 <= i3 < 12
    post: _
    """
    return L.parse_total(L.text_of(L.TOK12, [4, i1, i2, i3]))


def cond_entry_reduce_t6(i1: int, i2: int) -> bool:
    """
    pre: 0 <= i1 < 12 and 0 <= i2 < 12
    post: _
    """
    return L.entry_ok("reduce", L.text_of(L.TOK12, [6, i1, i2]))
