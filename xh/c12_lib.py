"""Shared helpers of the C12 / C03 CrossHair harnesses: everything here calls einx's REAL parser and the
REAL pre-solve stage of the operation entry points. Inputs are token indices (symbolic ints); the string is
their concatenation."""

import einx
import numpy as np
import einx._src.adapter.einx_from_namedtensor as efn
import einx._src.namedtensor.stage1 as stage1
import einx._src.tracer as tracer
from einx._src.namedtensor.stage1 import parse_op

TOK12 = ["a", "b", "1", " ", "(", ")", "[", "]", "...", "->", ",", "+"]
TOK13 = TOK12 + ["|"]
BS = chr(92)  # backslash (written with chr() because CrossHair reads condition docstrings raw)
TOKBS = ["a", " ", "(", ")", "[", "...", "->", BS + "d", BS + "1", BS + BS, BS + "n", BS + "g<0>", "%EXPR%", "{0}", "%s"]
TOK17 = TOK12 + ["|", "ab", "_x", "0", "2"]
SP8 = ["a", "1", " ", "(a b)", "[a]", "...", " -> ", ","]
TOK9 = ["a", "1", " ", "(", ")", "[", "]", "...", "->"]
CH12 = ["a", "1", " ", "(a b)", "[a b]", "[a]", "...", " -> ", ", ", " + ", "(", ")", "0"]
CHUNKS = ["a", "b", "1", " ", "(a b)", "[a b]", "[a]", "(a)", "...", " -> ", ", ", " + ", "(", ")", "[", "]", "c d", "0", "[0]"]
PUNCT = {"->", ",", "+", "(", ")", "[", "]", " ", " -> ", ", ", " + "}

INTERNAL = (AssertionError, NameError, KeyError, IndexError, AttributeError, RecursionError, UnboundLocalError, NotImplementedError)


def text_of(alphabet, idxs):
    return "".join(alphabet[i] for i in idxs)


def quotes_caller(msg, text):
    """The message quotes the caller's own string and the caret line stays inside it."""
    q = f'Expression: "{text}"'
    if q not in msg:
        return False
    after = msg.split(q, 1)[1]
    lines = after.split("\n")
    if len(lines) < 2:
        return True
    caret = lines[1]
    if set(caret) - {" ", "^"}:
        return True  # next line is prose, not a caret line
    return len(caret) <= 13 + len(text)


def parse_total(text):
    """H1/H2: parsing terminates with a tree or with einx.errors.SyntaxError quoting `text`."""
    try:
        parse_op(text)
        return True
    except einx.errors.SyntaxError as e:
        return quotes_caller(str(e), text)


def same_tree(x, y):
    """Structural equality of stage1 trees ignoring uuid-based names of numerical axes and ellipsis ids."""
    if type(x) is not type(y):
        return False
    if isinstance(x, stage1.Axis):
        if x.value is not None or y.value is not None:
            return x.value == y.value
        return x.name == y.name
    cx, cy = x.children, y.children
    return len(cx) == len(cy) and all(same_tree(a, b) for a, b in zip(cx, cy))


def outcome(text):
    try:
        return ("tree", parse_op(text))
    except einx.errors.SyntaxError:
        return ("syntax-error", None)


def redundant_between(t, nxt):
    """A space between two adjacent tokens is redundant iff it cannot be the separator the notation requires: next to
    existing whitespace, after an opening / before a closing delimiter, or next to an operator. Between an axis, a
    number or a closing delimiter and an opening delimiter (and between a closing delimiter and an axis) the space IS
    the required separator ('1[]' is an error, '1 []' is not)."""
    ops = {"->", ",", "+", " -> ", ", ", " + ", " "}
    if t in ops or nxt in ops:
        return True
    if t[-1] in "([" and t in ("(", "["):
        return True
    if nxt in (")", "]"):
        return True
    return False


def spacing_invariant(tokens, flags):
    """H3: doubling an existing space / adding a space next to punctuation never changes the outcome."""
    base = "".join(tokens)
    parts = []
    for i, t in enumerate(tokens):
        parts.append(t)
        if i + 1 < len(tokens) and flags[i]:
            nxt = tokens[i + 1]
            if "..." in (t, nxt):
                continue  # 'a ...' and 'a...' are different expressions
            if redundant_between(t, nxt):
                parts.append(" ")
    variant = "".join(parts)
    if flags[len(tokens) - 1]:
        variant = " " + variant + " "
    a, b = outcome(base), outcome(variant)
    if a[0] != b[0]:
        return False
    return a[0] == "syntax-error" or same_tree(a[1], b[1])


def reprint_stable(text):
    """H4: every accepted expression prints to text that parses back to the same structure."""
    kind, tree = outcome(text)
    if kind != "tree":
        return True
    printed = str(tree)
    try:
        again = parse_op(printed)
    except einx.errors.SyntaxError:
        return False
    return same_tree(tree, again)


# ---------------------------------------------------------------------------------------------------
# pre-solve stage of the real operation entry points (C03 layer 1, C12 H4b)


class Cut(Exception):
    """Raised by the stub that replaces the sympy-backed solver: everything before it ran for real."""


def _cut(*a, **k):
    raise Cut()


efn.solve = _cut


def _dummy(*tensors, out, **kwargs):
    raise Cut()


def _T(*shape):
    return tracer.signature.classical.Tensor(None, shape=shape)


ENTRY = {
    "id": (efn.id(_dummy), [_T(2, 2)]),
    "elementwise": (efn.elementwise(_dummy), [_T(2, 2), _T(2)]),
    "reduce": (efn.reduce(_dummy), [_T(2, 2)]),
    "dot": (efn.dot(_dummy), [_T(2, 2), _T(2)]),
    "get_at": (efn.get_at(_dummy), [_T(2, 2), _T(2)]),
    "update_at": (efn.update_at(_dummy), [_T(2, 2), _T(2), _T(2)]),
    "argfind": (efn.argfind(_dummy), [_T(2, 2)]),
    "preserve_shape": (efn.preserve_shape(_dummy), [_T(2, 2)]),
}
DOCUMENTED = (
    einx.errors.SyntaxError,
    einx.errors.RankError,
    einx.errors.AxisSizeError,
    einx.errors.SemanticError,
    einx.errors.OperationNotSupportedError,
    einx.errors.BackendResolutionError,
    ValueError,
    TypeError,
    Cut,
)


def mixed_bracket_use(text):
    """An axis name used both inside and outside of brackets (own scan; False when brackets are unbalanced)."""
    depth, marked, unmarked, i = 0, set(), set(), 0
    while i < len(text):
        ch = text[i]
        if ch == "[":
            depth += 1
        elif ch == "]":
            depth -= 1
            if depth < 0:
                return False
        elif ch.isalpha() or ch == "_":
            j = i
            while j < len(text) and (text[j].isalnum() or text[j] == "_"):
                j += 1
            (marked if depth > 0 else unmarked).add(text[i:j])
            i = j
            continue
        i += 1
    return depth == 0 and bool(marked & unmarked)


def entry_ok(family, text):
    """C03 L1 + C12 H4b: the pre-solve stage of an operation family either reaches the solver or raises a
    documented class; a SyntaxError must quote the caller's own string."""
    fn, tensors = ENTRY[family]
    try:
        fn(text, *tensors)
        return not mixed_bracket_use(text)
    except einx.errors.SyntaxError as e:
        return quotes_caller(str(e), text)
    except DOCUMENTED:
        return True


def diagnose_entry(family, text):
    """Classify what the pre-solve stage does with `text` (used to attribute counterexamples)."""
    fn, tensors = ENTRY[family]
    try:
        fn(text, *tensors)
        return {"outcome": "ok", "mixed_bracket_use": mixed_bracket_use(text)}
    except einx.errors.SyntaxError as e:
        msg = str(e)
        quoted = msg.split('Expression: "', 1)[1].split('"', 1)[0] if 'Expression: "' in msg else None
        return {"outcome": "SyntaxError", "quotes_caller": quotes_caller(msg, text), "quoted": quoted, "quoted_has_brace": bool(quoted and "{" in quoted)}
    except DOCUMENTED as e:
        return {"outcome": type(e).__name__}
    except Exception as e:  # noqa: BLE001
        return {"outcome": type(e).__name__, "internal": True}


# ---------------------------------------------------------------------------------------------------
# spacing on valid descriptions: documentation examples and structural variety

CORPUS = [
    "a b c -> a (b c)", "a (b c) -> a b c", "a b -> b a", "[c d] a, b -> a [e] b", "a [b], [b] c -> a c",
    "a b, b c -> a b c", "a b, -> a b", "a b [c] -> a b", "[a] b [c] -> b", "a 1 c -> a c", "a b -> a b 3 3",
    "a c, b c -> (a + b) c", "(a + b) c -> a c, b c", "c, h w c -> (1 + (h w)) c", "a (b [c]) -> a b",
    "(h [dh]) (w [dw]) c -> h w c", "s... [c] -> s...", "a..., b... -> a... b...", "b [s]... c -> b c",
    "(s ds)... c -> (s...) ds... c", "(s [ds])...", "..., ... -> ...", "a [b -> c]", "b p [i,->]",
    "b [h w] c, b p [2] -> b p c", "[h], p [1] -> p", "p [h], p, p -> p [h]", "b [h w] c, b p [2], b p c",
    "a [b c]", "a [b] -> a [1]", "a b [c] -> a b [c]", "a b c, b c", "a, a", "a ([b]) c", "((a b) c) d -> a b c d",
    "a (b (c d)) -> (a b) (c d)", "(a b) c -> c (a b)", "[a b] c -> c", "a [b] [c] -> a",
    "a (b + c) d -> a b d, a c d",
]


def redundant_gaps(desc):
    """Positions where inserting ONE space cannot change the token sequence: next to an existing space, after an
    opening or before a closing delimiter, and around '->', ',' and '+'. Never next to an ellipsis
    ('a ...' and 'a...' are different expressions) and never between two name/number characters."""
    out = []
    n = len(desc)
    for p in range(n + 1):
        left = desc[p - 1] if p > 0 else ""
        right = desc[p] if p < n else ""
        if desc[max(0, p - 3) : p] == "..." or desc[p : p + 3] == "...":
            continue
        if desc[max(0, p - 1) : p + 1] == "->" or (left == "-" and right == ">"):
            continue  # inside the arrow
        ok = False
        if left == " " or right == " " or p == 0 or p == n:
            ok = True
        if left in "([" and left != "":
            ok = True
        if right in ")]" and right != "":
            ok = True
        if left in ",+>" and left != "":
            ok = True
        if right in ",+-" and right != "":
            ok = True
        if ok:
            out.append(p)
    return out


def corpus_spacing(d, g1, g2):
    desc = CORPUS[d]
    gaps = redundant_gaps(desc)
    if not gaps:
        return True
    p1, p2 = sorted([gaps[g1 % len(gaps)], gaps[g2 % len(gaps)]])
    variant = desc[:p1] + " " + desc[p1:p2] + " " + desc[p2:]
    a, b = outcome(desc), outcome(variant)
    if a[0] != b[0]:
        return False
    return a[0] == "syntax-error" or same_tree(a[1], b[1])


# ---------------------------------------------------------------------------------------------------
# the public API hands the caller's description to the parser verbatim (C12: errors quote the caller's own text;
# strings the parser rejects are rejected by every public entry point too)

API_TOK = ["a", " ", "  ", chr(9), "[b]", "[b", " -> ", chr(10), "(", "a b", ")", chr(160)]
_API_ARGS = {
    "sum": [np.zeros((2, 2))],
    "id": [np.zeros((2, 2))],
    "dot": [np.zeros((2, 2)), np.zeros((2,))],
    "get_at": [np.zeros((2, 2)), np.zeros((2,), dtype="int64")],
    "softmax": [np.zeros((2, 2))],
    "solve_axes": [np.zeros((2, 2))],
}


def api_verbatim(opname, text):
    import einx._src.namedtensor.stage1 as stage1

    seen = []
    orig = stage1.parse_op

    def spy(t):
        seen.append(t)
        raise Cut()

    stage1.parse_op = spy
    try:
        getattr(einx, opname)(text, *_API_ARGS[opname])
    except Cut:
        pass
    except Exception:  # noqa: BLE001 - a rejection before parsing is not this harness' subject
        pass
    finally:
        stage1.parse_op = orig
    expected = text + " ->" if opname == "solve_axes" else text
    return len(seen) == 0 or seen[0] == expected


# A SyntaxError is about the caller's description. Ordinary descriptions must not produce one whatever the tensors'
# ranks and sizes are (einx prints shapes and sizes into text and parses that text).
_LONG = [
    ("id", "... -> ...", lambda: [np.zeros((1,) * 40)], {}),
    ("id", "a... -> a...", lambda: [np.zeros((1,) * 45)], {}),
    ("sum", "a [...]", lambda: [np.zeros((2,) + (1,) * 40)], {}),
    ("id", "a... -> (a...)", lambda: [np.zeros((1,) * 39 + (3,))], {}),
    ("solve_axes", "a b c d e f g h i j k l m n", lambda: [_Shape(tuple(54321 + i for i in range(14)))], {}),
    ("solve_shapes", "a...", lambda: [None], {"a": tuple(100000 + i for i in range(16))}),
    ("matches", "a... b", lambda: [_Shape(tuple(123456 for _ in range(24)))], {}),
    ("id", "a... -> a...", lambda: [np.zeros((1,) * 20)], {"a": tuple([1] * 20)}),
]


class _Shape:
    def __init__(self, shape):
        self.shape = shape


def long_shape_ok(i):
    opname, desc, mk, kw = _LONG[i]
    try:
        getattr(einx, opname)(desc, *mk(), **kw)
    except einx.errors.SyntaxError:
        return False
    except Exception:  # noqa: BLE001 - other rejections are not this harness' subject
        return True
    return True
