"""C06 — a call's outcome does not depend on earlier calls (cache transparency). PARTIAL.

Reduction: a warm call differs from a cold one only if two calls with *equal cache keys* have different cold
outcomes (or a failing call leaves state behind). CrossHair searches the REAL key machinery
(lru_cache._freeze_value, functools._make_key, frozendict, tracer __hash__/__eq__) for argument pairs that
share a key although their types differ; every pair it finds is replayed through the public API in every
argument slot where such a value can occur: outcome of the second call in a fresh interpreter vs. after the
first call in the same process. Only a disagreeing replay is a violation. Failing calls (parse / solve /
trace / run time) followed by a valid call are compared with a fresh interpreter the same way.
See DESIGN.md §3 C06.
"""

import collections
import json
import os
import re
import subprocess
import sys

from vlib import replay, runner, xhair

PROP = "C06"
PROBE = os.path.join(runner.ROOT, "vlib", "c06_probe.py")

SLOTS = [
    ("size-scalar", lambda v: {"op": "id", "desc": "a -> a b", "shapes": [[2]], "kwargs": {"b": v}}),
    ("size-tuple-element", lambda v: {"op": "id", "desc": "a -> a b...", "shapes": [[2]], "kwargs": {"b": [v, 2]}}),
    ("size-redundant", lambda v: {"op": "id", "desc": "a b -> b a", "shapes": [[1, 3]], "kwargs": {"a": v}}),
    ("reduce-size", lambda v: {"op": "sum", "desc": "(a [b]) -> a", "shapes": [[2]], "kwargs": {"a": v}}),
    ("roll-shift", lambda v: {"op": "roll", "desc": "a [b]", "shapes": [[2, 3]], "kwargs": {"shift": v}}),
    ("keepdims", lambda v: {"op": "sum", "desc": "a [b]", "shapes": [[2, 3]], "kwargs": {"keepdims": v}}),
    ("solve-axes", lambda v: {"op": "solve_axes", "desc": "a b", "shapes": [[1, 3]], "kwargs": {"a": v}}),
    ("scalar-tensor", lambda v: {"op": "add", "desc": "a, -> a", "shapes": [[2], "scalar"], "scalar": v, "kwargs": {}}),
    ("adapter-option", lambda v: {"op": "adapted", "adapter": "elementwise:option-sensitive", "desc": "a", "shapes": [[3]], "kwargs": {"opt": v}}),
]

GOOD = {"op": "add", "desc": "a b, b -> a b", "shapes": [[2, 3], [3]], "kwargs": {}}
FAILING = [
    ("parse-time", {"op": "add", "desc": "a b, (b -> a b", "shapes": [[2, 3], [3]], "kwargs": {}}),
    ("solve-time", {"op": "add", "desc": "a b, b -> a b", "shapes": [[2, 3], [4]], "kwargs": {}}),
    ("trace-time", {"op": "add", "desc": "a [b], b -> a b", "shapes": [[2, 3], [3]], "kwargs": {}}),
    ("run-time", {"op": "add", "desc": "a b, b -> a b", "shapes": [[2, 3], "bad-factory"], "kwargs": {}}),
    ("inside-with-block", {"op": "add", "desc": "a b, b -> a b", "shapes": [[2, 3], [4]], "kwargs": {}, "with_backend": "numpy"}),
    ("unknown-backend", {"op": "add", "desc": "a b, b -> a b", "shapes": [[2, 3], [3]], "kwargs": {"backend": "nope"}}),
]


def probe(calls):
    e = dict(os.environ)
    e.pop("PYTHONPATH", None)
    p = subprocess.run([replay.PY, PROBE, json.dumps({"calls": calls})], capture_output=True, text=True, timeout=180, env=e)
    for line in p.stdout.splitlines():
        if line.startswith("C06PROBE "):
            return json.loads(line[len("C06PROBE ") :])
    raise RuntimeError("probe failed: " + (p.stdout + p.stderr)[-500:])


def norm(o):
    o = dict(o)
    return json.dumps(o, sort_keys=True)


def work_cold(second):
    return probe([second])


def work(item):
    kind, name, first, second, cold = item
    warm = probe((first if isinstance(first, list) else [first]) + [second])
    res = {"kind": kind, "name": name, "first": first, "second": second, "cold": cold["outcomes"][-1], "warm": warm["outcomes"][-1], "state_after": warm["state"], "state_cold": cold["state"]}
    same = norm(res["cold"]) == norm(res["warm"])
    state_ok = warm["state"] == cold["state"]
    res["status"] = "holds" if same and state_ok else "violation"
    res["why"] = None if same and state_ok else ("outcome of the second call differs between a fresh interpreter and after the first call" if not same else f"process state differs after the history: {warm['state']} vs {cold['state']}")
    return res


REPLAY = r'''#!/venv/bin/python
"""Replay (C06): the second call in a fresh interpreter vs. after the first call in the same process."""
import json, subprocess, sys
first, second = json.loads(r"""{first}"""), json.loads(r"""{second}""")
def probe(calls):
    p = subprocess.run(["/venv/bin/python", "/verif/vlib/c06_probe.py", json.dumps({{"calls": calls}})], capture_output=True, text=True)
    line = [l for l in p.stdout.splitlines() if l.startswith("C06PROBE ")][0]
    return json.loads(line[9:])
cold, warm = probe([second]), probe((first if isinstance(first, list) else [first]) + [second])
print("earlier call(s):", first)
print("second call:", second)
print("second call in a fresh interpreter ->", json.dumps(cold["outcomes"][-1])[:300], cold["state"])
print("second call after the first one    ->", json.dumps(warm["outcomes"][-1])[:300], warm["state"])
if json.dumps(cold["outcomes"][-1], sort_keys=True) != json.dumps(warm["outcomes"][-1], sort_keys=True) or cold["state"] != warm["state"]:
    print("REPRODUCED: the outcome depends on the earlier call"); sys.exit(1)
print("NOT-REPRODUCED"); sys.exit(0)
'''


def write_replay(first, second):
    import hashlib

    os.makedirs(os.path.join(runner.REPLAY_DIR, PROP), exist_ok=True)
    text = json.dumps([first, second])
    path = os.path.join(runner.REPLAY_DIR, PROP, "history_" + hashlib.sha1(text.encode()).hexdigest()[:12] + ".py")
    with open(path, "w") as f:
        f.write(REPLAY.format(first=json.dumps(first), second=json.dumps(second)))
    return path


def main():
    tier, seed = runner.tier(), runner.seed()
    rep = runner.Report(PROP, "other")
    # (1) solver: colliding key pairs
    h = xhair.start_file(os.path.join(xhair.XH_DIR, "c06_keys.py"), per_condition_timeout=30 if tier == "quick" else 300, max_parallel=8)
    xres = xhair.finish(h)
    pairs = []
    xv = collections.Counter()
    for c in xres["conditions"]:
        xv[c["verdict"]] += 1
        if c["verdict"] == "counterexample" and c.get("call"):
            m = re.search(r"\((.*)\)$", c["call"])
            try:
                vals = eval("[" + m.group(1) + "]", {"True": True, "False": False, "inf": float("inf"), "nan": float("nan")})  # noqa: S307
            except Exception:  # noqa: BLE001
                continue
            if len(vals) >= 2 and all(isinstance(v, (int, float, bool)) for v in vals[:2]) and all(v == v and abs(v) < 1e6 for v in vals[:2]):
                pairs.append((c["name"], vals[0], vals[1]))
        elif c["verdict"] in ("confirmed", "not-confirmed", "timeout", "no-precondition"):
            # hash()/== realise symbolic values: absence of a counterexample is never counted as a proof here
            rep.inconclusive.append({"why": "crosshair found no colliding pair (bug-finding only: " + c["verdict"] + ")", "condition": c["name"]})
        elif c["verdict"] == "twin-not-refuted":
            rep.harness_error(f"vacuity twin {c['name']} was not refuted: {c['message'][-200:]}")
    sys.path.insert(0, "/verif/xh")
    import c06_keys as K

    kinds_bad = K.kinds_never_collide()
    if kinds_bad:
        rep.violation({"kind": "argument-kinds-share-a-key", "pairs": str(kinds_bad)}, "-", f"tensor placeholders of different kind/shape share a cache key: {kinds_bad}")
    # also the canonical representatives of each colliding class at a size that is valid for the slots
    extra = []
    for name, x, y in pairs:
        for base in (2, 1):
            try:
                extra.append((name + f"@{base}", type(x)(base), type(y)(base)))
            except Exception:  # noqa: BLE001
                pass
    pairs = pairs + [e for e in extra if e[1] == e[2]]
    # the CPython-equal representatives are always replayed (whether or not the current key still merges them)
    for name, x, y in (("canonical:int-float", 2, 2.0), ("canonical:int-bool", 1, True), ("canonical:float-bool", 1.0, True), ("canonical:signed-zero", 0.0, -0.0)):
        if not any(type(a) is type(x) and type(b) is type(y) and a == x for _, a, b in pairs):
            pairs.append((name, x, y))
    # (2) replay every pair in every slot, both orders, plain and graph=True
    items = []
    seen = set()
    for name, x, y in pairs:
        for sname, mk in SLOTS:
            for a, b in ((x, y), (y, x)):
                for graph in (False, True):
                    if graph and tier == "quick" and sname not in ("size-scalar", "roll-shift"):
                        continue
                    first, second = mk(a), mk(b)
                    if graph:
                        if first["op"] == "solve_axes":
                            continue
                        first, second = dict(first, graph=True), dict(second, graph=True)
                    key = json.dumps([first, second], sort_keys=True)
                    if key in seen:
                        continue
                    seen.add(key)
                    items.append(("key-collision", f"{sname}:{type(a).__name__}({a!r})->{type(b).__name__}({b!r})" + (":graph" if graph else ""), first, second))
    # (2b) context histories: a call outside any block, then the same / another call in a different backend context
    calls = [
        {"op": "add", "desc": "a, a", "shapes": [[3], [3]], "kwargs": {}},
        {"op": "dot", "desc": "a [b], [b] -> a", "shapes": [[2, 3], [3]], "kwargs": {}},
        {"op": "sum", "desc": "a [b]", "shapes": [[2, 3]], "kwargs": {}},
    ]
    contexts = [{}, {"with_backend": "numpy.einsum"}, {"with_backend": "numpy.numpylike"}, {"kwargs_backend": "numpy.einsum"}]
    for ci, c1 in enumerate(calls):
        for c2 in calls if tier == "thorough" else [calls[ci], calls[(ci + 1) % len(calls)]]:
            for ctx1 in contexts[:2] if tier == "quick" else contexts:
                for ctx2 in contexts:
                    if ctx1 == ctx2:
                        continue

                    def mk(c, ctx):
                        c = json.loads(json.dumps(c))
                        if "with_backend" in ctx:
                            c["with_backend"] = ctx["with_backend"]
                        if "kwargs_backend" in ctx:
                            c["kwargs"]["backend"] = ctx["kwargs_backend"]
                        return c

                    for graph in (False, True):
                        first, second = mk(c1, ctx1), mk(c2, ctx2)
                        if graph:
                            second = dict(second, graph=True)
                        items.append(("context-history", f"{c1['op']}[{ctx1 or 'plain'}] then {c2['op']}[{ctx2 or 'plain'}]" + (":graph" if graph else ""), first, second))
    # (2c) factory histories: short-lived factory objects of different signature kinds, one call after the other
    # (whatever einx remembers about a factory must not be attributed to a later, different factory)
    fkinds = ["plain", "name", "arg_index", "signature", "kwargs", "partial", "partial-name", "method", "callable-object"]
    if tier == "quick":
        fkinds = ["plain", "name", "kwargs", "partial", "method", "callable-object"]
    fcalls = [
        lambda k: {"op": "add", "desc": "a b, b -> a b", "shapes": [[2, 3], "factory:" + k], "kwargs": {}},
        lambda k: {"op": "dot", "desc": "a [b], [b] -> a", "shapes": [[2, 3], "factory:" + k], "kwargs": {}},
    ]
    for k1 in fkinds:
        for k2 in fkinds:
            if k1 == k2:
                continue
            for fi, f1 in enumerate(fcalls):
                for f2 in (fcalls if tier == "thorough" else fcalls[fi : fi + 1]):
                    # several short-lived factories of the first kind (each one is freed before the next is made)
                    items.append(("factory-history", f"{k1} x4 then {k2}", [f1(k1)] * 4, f2(k2)))
    # (2d) constant histories: compiled functions that hold a constant (an adapted user function); compile A, compile
    # B with another constant, call A again (cache hit) - A's outcome must be its cold outcome
    red = ["reduce:sum", "reduce:prod", "reduce:max", "reduce:min"]
    elw = ["elementwise:add", "elementwise:multiply", "elementwise:maximum"]
    mk_r = lambda a, desc="a [b]": {"op": "adapted", "adapter": a, "desc": desc, "shapes": [[2, 3]], "kwargs": {}}
    mk_e = lambda a: {"op": "adapted", "adapter": a, "desc": "a b, b -> a b", "shapes": [[2, 3], [3]], "kwargs": {}}
    for group, mk in ((red, mk_r), (elw, mk_e)):
        for x in group:
            for y in group:
                if x != y:
                    items.append(("constant-history", f"{x}, {y}, {x} again", [mk(x), mk(y)], mk(x)))
                    if tier == "thorough":
                        items.append(("constant-history", f"{x}, {y}, {x} again:graph", [mk(x), mk(y)], dict(mk(x), graph=True)))
    for x in red:
        for y in elw:
            items.append(("constant-history", f"{x}, {y}, {x} again", [mk_r(x), mk_e(y)], mk_r(x)))
    # user functions that are value objects: equal (and hash-equal) but different functions
    for kind, mk in (("reduce", mk_r), ("elementwise", mk_e)):
        for a, b in (("2", "2.0"), ("2.0", "2"), ("1", "True"), ("True", "1"), ("0.0", "-0.0")):
            items.append(("constant-history", f"{kind} value objects {a} then {b}", [mk(f"{kind}:value-object:{a}")], mk(f"{kind}:value-object:{b}")))
    # (2e) description histories: the SAME description text used by operations of different families one after the
    # other (whatever einx remembers about a text must not carry one operation's reading over to the next)
    texts = [("a b -> a", [[3, 1]]), ("a b -> b", [[1, 3]]), ("a b c -> a c", [[2, 1, 3]]), ("a b", [[3, 1]]), ("a [b]", [[3, 2]]), ("(a b) -> a", [[3]])]
    fam_ops = [("sum", {}), ("max", {}), ("flip", {}), ("roll", {"shift": 1}), ("softmax", {}), ("sort", {}), ("id", {}), ("argmax", {})]
    for desc, shapes in texts:
        for o1, k1 in fam_ops:
            for o2, k2 in fam_ops:
                if o1 == o2:
                    continue
                if tier == "quick" and not ({o1, o2} & {"sum", "max"} and {o1, o2} & {"flip", "roll", "softmax", "sort"}):
                    continue
                kw_extra = {"a": 3} if desc.startswith("(a b)") else {}
                items.append(("description-history", f"{o1} then {o2} on {desc!r}", {"op": o1, "desc": desc, "shapes": shapes, "kwargs": dict(k1, **kw_extra)}, {"op": o2, "desc": desc, "shapes": shapes, "kwargs": dict(k2, **kw_extra)}))
    # (3) failing call followed by a valid one, and a valid call repeated after the failing one of the same key family
    for fname, failing in FAILING:
        items.append(("failure-hygiene", fname, failing, GOOD))
        items.append(("failure-hygiene", fname + ":graph", failing, dict(GOOD, graph=True)))
    # the cold outcome depends on the second call only: probe each distinct second call once
    seconds = {}
    for it in items:
        seconds.setdefault(json.dumps(it[3], sort_keys=True), it[3])
    keys = list(seconds)
    colds = dict(zip(keys, runner.pmap(work_cold, [seconds[k] for k in keys], procs=min(16, runner.nprocs()), chunksize=1)))
    items = [it + (colds[json.dumps(it[3], sort_keys=True)],) for it in items]
    results = runner.pmap(work, items, procs=min(16, runner.nprocs()), chunksize=1)
    status = collections.Counter()
    samples, nontrivial = [], set()
    for it, r in zip(items, results):
        if r.get("status") == "harness-error":
            rep.harness_error(f"{r.get('error')} {r.get('trace', '')[-500:]}")
            continue
        status[f"{r['kind']}:{r['status']}"] += 1
        if r["status"] == "holds":
            nontrivial.add((r["kind"], r["name"]))
            if len(samples) < 8 and r["kind"] == "key-collision" and "exc" not in r["cold"]:
                samples.append({"history": r["name"], "first": r["first"], "second": r["second"], "cold": str(r["cold"])[:120], "warm": str(r["warm"])[:120]})
        else:
            path = write_replay(r["first"], r["second"])
            ok, out = replay.run_script(path)
            if ok:
                slot = r["name"].split(":")[0]
                sig = {"kind": r["kind"], "slot": slot, "types": re.sub(r"\(.*?\)", "", r["name"].split(":", 1)[1]) if ":" in r["name"] else None}
                rep.violation(sig, path, f"{r['name']}: {r['why']}\n  cold: {str(r['cold'])[:200]}\n  warm: {str(r['warm'])[:200]}")
            else:
                rep.harness_error(f"history finding did not reproduce: {r['name']} {out[-300:]}")
    rep.coverage = {
        "explanation": "CrossHair searches the real cache-key functions for colliding argument pairs of different type (solver step); each pair found is replayed through the public API in every argument slot (size keyword scalar / tuple element / redundant size, roll shift, keepdims, solve_axes, scalar tensor argument), in both orders, with and without graph=True: second call cold vs. warm. Failing calls at parse/solve/trace/run time, inside a with-block and with an unknown backend are followed by a valid call and compared the same way, including the depth of the tracing and with-block stacks.",
        "evaluations": len(items) + len(xres["conditions"]),
        "distinct_nontrivial": len(nontrivial),
        "rule": "one history = (first call, second call); non-trivial = outcome of the second call (value digest, shape, dtype, graph text, or exception class) and the context-stack depths are identical cold and warm",
        "samples": samples,
        "status_counts": dict(status),
        "crosshair": {"verdicts": dict(xv), "colliding_pairs_found": [(n, repr(x), repr(y)) for n, x, y in pairs]},
        "argument_kinds_share_key": kinds_bad,
        "not_decided": "arbitrary long histories are covered only through the reduction (equal keys <=> equal cold outcomes); determinism of compilation is C16's subject; CrossHair cannot *confirm* absence of further collisions (hash/eq over symbolic values): 'not confirmed' conditions are inconclusive",
    }
    rep.assumptions = ["functools.cache semantics: exceptions are not cached", "the reduction above"]
    rep.finish()


if __name__ == "__main__":
    main()
