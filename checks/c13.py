"""C13 — tensor factories run once per call, with the resolved shape, only at run time.

(i) z3 proves, for all contents, OP(.., factory, ..) == OP(.., factory's tensor, ..) on SymArrays;
(ii) the shape argument each factory receives is the shape its expression denotes in the (known-by-
construction, uniquely determined) axis assignment, and the optional keywords are exactly the declared ones;
(iii) invocation discipline (cold / warm / graph=True / rejected call) is observed concretely.
"""

import collections
import itertools
import random
import types

import numpy as np

from vlib import family, harness, prove, replay, runner, selftest, symarray as S
from vlib.desc import expand, shape

BUDGET = runner.ReplayBudget(12)
PROP = "C13"
FAMS = {"id": 40, "elementwise": 70, "reduce": 40, "dot": 40, "get_at": 25, "preserve": 30, "argfind": 20, "update": 25}
THOROUGH_MULT = 10
SIGS = ["shape", "shape_name", "shape_kwonly", "shape_varkw"]


class Factory:
    """Returns a fixed tensor and logs every invocation. `kind` is the Python callable kind: a plain
    function, a functools.partial, a bound method or an instance with __call__ (factories of one kind
    share a Python type but not a signature)."""

    def __init__(self, tensor, sig, kind="function"):
        self.tensor = tensor
        self.sig = sig
        self.kind = kind
        self.log = []
        log = self.log

        def fresh():
            return S.wrap(S.plain(tensor).copy())

        if sig == "shape":

            def f(shape):
                log.append((shape, {}))
                return fresh()

            def fp(tag, shape):
                log.append((shape, {}))
                return fresh()

        elif sig == "shape_name":

            def f(shape, name=None):
                log.append((shape, {"name": name}))
                return fresh()

            def fp(tag, shape, name=None):
                log.append((shape, {"name": name}))
                return fresh()

        elif sig == "shape_kwonly":

            def f(shape, *, arg_index, signature):
                log.append((shape, {"arg_index": arg_index, "signature": signature}))
                return fresh()

            def fp(tag, shape, *, arg_index, signature):
                log.append((shape, {"arg_index": arg_index, "signature": signature}))
                return fresh()

        else:

            def f(shape, **kw):
                log.append((shape, dict(kw)))
                return fresh()

            def fp(tag, shape, **kw):
                log.append((shape, dict(kw)))
                return fresh()

        if kind == "function":
            self.fn = f
        elif kind == "partial":
            import functools

            self.fn = functools.partial(fp, "tag")
        elif kind == "method":

            class Holder:
                pass

            Holder.make = fp  # first parameter plays the role of self
            self.fn = Holder().make
        else:

            class Callable:
                pass

            Callable.__call__ = fp
            self.fn = Callable()


KINDS = ["function", "function", "partial", "method", "callable-object"]
HISTORY = []  # (kind, signature) of every factory this process has handed to einx, in order


def resolve_op(name):
    """einx.<name>, or for 'adapted:<ufunc>' a user function adapted with einx.numpy.adapt_numpylike_elementwise (one
    adapter per name and process)."""
    import einx
    import einx.numpy

    if not name.startswith("adapted:"):
        return getattr(einx, name)
    if name not in _ADAPTED:
        g = getattr(np, name.split(":", 1)[1])

        def user_elementwise(*xs):
            out = xs[0]
            for x in xs[1:]:
                out = g(out, x)
            return out

        _ADAPTED[name] = einx.numpy.adapt_numpylike_elementwise(user_elementwise)
    return _ADAPTED[name]


_ADAPTED = {}


def kwargs_ok(sig, kw, op, index):
    if op.startswith("adapted:"):
        # an adapted operation has no einx name: `name` may be a string, None, or left out (not part of this check)
        kw = {k: v for k, v in kw.items() if k != "name"}
        if sig in ("shape", "shape_name"):
            return kw == {}
        want = {"arg_index", "signature"}
        return set(kw) == want and kw["arg_index"] == index and hasattr(kw["signature"], "exprs_in") and hasattr(kw["signature"], "exprs_out")
    if sig == "shape":
        return kw == {}
    if sig == "shape_name":
        return kw == {"name": op}
    want = {"arg_index", "signature"} if sig == "shape_kwonly" else {"name", "arg_index", "signature"}
    if set(kw) != want:
        return False
    if kw["arg_index"] != index:
        return False
    if "name" in kw and kw["name"] != op:
        return False
    s = kw["signature"]
    return hasattr(s, "exprs_in") and hasattr(s, "exprs_out")


def work(item):
    case, subset, sigs, timeout_ms = item
    import einx

    op = resolve_op(case["op"])
    arrs = harness.build_inputs(case)
    krng = random.Random(f"{case['desc']}:{subset}:{sigs}")
    kinds = [krng.choice(KINDS) for _ in subset]
    facs = {i: Factory(arrs[i], sigs[k], kinds[k]) for k, i in enumerate(subset)}
    history_before = list(HISTORY)
    HISTORY.extend((kinds[k], sigs[k]) for k in range(len(subset)))
    kw = dict(case["kwargs"])
    kw.update(case["opts"])
    if not case["op"].startswith("adapted:"):
        kw["backend"] = "numpy"  # a call whose tensors are all factories has nothing to infer a backend from (adapted operations belong to their backend)
    res = {"op": case["op"], "desc": case["desc"], "subset": list(subset), "sigs": list(sigs), "kinds": kinds, "history": history_before[-40:], "kwargs": runner.jsonable(case["kwargs"])}

    def args_with_factories():
        return [facs[i].fn if i in facs else S.wrap(S.plain(a).copy()) for i, a in enumerate(arrs)]

    def counts():
        return [len(facs[i].log) for i in subset]

    problems = []
    # graph=True on a cold cache: compiles, must not invoke
    try:
        op(case["desc"], *args_with_factories(), graph=True, **kw)
    except Exception as e:  # noqa: BLE001
        res["status"] = harness.classify_exception(e)
        res["error"] = f"{type(e).__name__}: {str(e)[:300]}"
        if any(counts()):
            problems.append(f"factory invoked although the call was rejected/graph-only: {counts()}")
            res["status"] = "discipline-violation"
            res["problems"] = problems
            return res
        if res["status"] in ("unmodelled", "unsupported"):
            return res
        # a call is only well-formed or not: the same call with the factories' tensors as ordinary arguments must be
        # rejected as well ("the result equals the result of passing the factory's return value")
        try:
            kw_t = {k: v for k, v in kw.items() if k != "backend"}
            op(case["desc"], *[S.wrap(S.plain(a).copy()) for a in arrs], **kw_t)
        except Exception:  # noqa: BLE001
            return res
        res["status"] = "violation?"
        res["problems"] = [f"the call with factories is rejected ({res['error'][:160]}) although the same call with the factories' tensors computes"]
        res["model_inputs"] = [np.zeros(a.shape, dtype=object) for a in arrs]
        return res
    if any(counts()):
        problems.append(f"factory invoked during compilation / graph=True: {counts()}")
    try:
        r1 = op(case["desc"], *args_with_factories(), **kw)
        c1 = counts()
        r1b = op(case["desc"], *args_with_factories(), **kw)
        c2 = counts()
        r2 = op(case["desc"], *[S.wrap(S.plain(a).copy()) for a in arrs], **kw)
    except Exception as e:  # noqa: BLE001
        res["status"] = harness.classify_exception(e)
        res["error"] = f"{type(e).__name__}: {str(e)[:300]}"
        return res
    base = [0] * len(subset)
    if c1 != [1] * len(subset):
        problems.append(f"invocations after first execution {c1}, expected exactly one each")
    if c2 != [2] * len(subset):
        problems.append(f"invocations after cached repeat {c2}, expected exactly two each")
    for i in subset:
        want = tuple(shape(expand(case["ins"][i])))
        for shp, fkw in facs[i].log:
            if not (isinstance(shp, tuple) and all(type(s) is int for s in shp) and shp == want):
                problems.append(f"argument {i}: factory received shape {shp!r}, its expression resolves to {want}")
            if not kwargs_ok(facs[i].sig, fkw, case["op"], i):
                problems.append(f"argument {i}: factory({facs[i].sig}) received keywords {sorted(fkw)} / values {({k: v for k, v in fkw.items() if k != 'signature'})}")
    # a fresh case-specific cold execution (no prior graph=True) is covered by other subsets of the same case
    try:
        o1, o1b, o2 = harness.as_list(r1), harness.as_list(r1b), harness.as_list(r2)
        v, model, dt = prove.prove_equal([(S.plain(harness.wrapnd(a)), S.plain(harness.wrapnd(b))) for a, b in zip(o1 + o1b, o2 + o2)], harness.coord_assumptions(case, arrs), timeout_ms)
    except prove.ShapeMismatch as e:
        v, model, dt = "sat", None, 0.0
        problems.append(f"shape mismatch {e}")
    res["verdict"], res["solver_s"] = v, dt
    if v == "sat":
        problems.append("result with factory differs from result with the factory's tensor")
    if v == "unknown":
        res["status"] = "unknown"
        return res
    if problems:
        res["status"] = "violation?"
        res["problems"] = problems
        res["model_inputs"] = [prove.concretise(a, model) if model is not None else np.zeros(a.shape, dtype=object) for a in arrs]
    else:
        res["status"] = "holds"
    return res


REPLAY = r'''#!/verif/.venv/bin/python
"""Replay (C13): factories (same callable kinds and signatures, after the same sequence of earlier factory
kinds in the process) vs. tensors through the public API on plain numpy."""
import json, os, sys
HASHSEED = "{hashseed}"
if os.environ.get("PYTHONHASHSEED") != HASHSEED:
    os.environ["PYTHONHASHSEED"] = HASHSEED
    os.execv(sys.executable, [sys.executable] + sys.argv)
import numpy as np
sys.path.insert(0, "/verif"); sys.path.insert(0, "/repo")
import einx
from checks import c13
from vlib import symarray as S
S.wrap = lambda a: a  # plain numpy in the replay
S.plain = lambda a: a
SPEC = json.loads(r"""{spec}""")
def tup(v): return tuple(tup(x) for x in v) if isinstance(v, list) else v
args = [np.array(a["data"], dtype=a["dtype"]).reshape(a["shape"]) for a in SPEC["args"]]
kw = {{k: tup(v) for k, v in SPEC["kwargs"].items()}}
if not SPEC["op"].startswith("adapted:"): kw["backend"] = "numpy"
# earlier factories of this process (only their Python kind and signature matter)
for kind, sig in SPEC["history"]:
    f = c13.Factory(np.zeros((2,)), sig, kind)
    try: einx.add("a, a", np.zeros((2,)), f.fn, backend="numpy")
    except Exception as e: print("history call failed:", kind, sig, type(e).__name__)
facs = {{i: c13.Factory(args[i], sig, kind) for i, sig, kind in zip(SPEC["subset"], SPEC["sigs"], SPEC["kinds"])}}
fa = [facs[i].fn if i in facs else a for i, a in enumerate(args)]
op = c13.resolve_op(SPEC["op"])
bad = []
try:
    op(SPEC["desc"], *fa, graph=True, **kw)
    if any(len(f.log) for f in facs.values()): bad.append("invoked for graph=True")
    r1 = op(SPEC["desc"], *fa, **kw)
    n1 = [len(facs[i].log) for i in SPEC["subset"]]
    r1b = op(SPEC["desc"], *fa, **kw)
    n2 = [len(facs[i].log) for i in SPEC["subset"]]
    r2 = op(SPEC["desc"], *[a.copy() for a in args], **kw)
    if n1 != [1] * len(n1) or n2 != [2] * len(n2): bad.append("invocation counts %r then %r" % (n1, n2))
    l = lambda r: list(r) if isinstance(r, (tuple, list)) else [r]
    for a, b in zip(l(r1) + l(r1b), l(r2) + l(r2)):
        if not np.array_equal(np.asarray(a), np.asarray(b)): bad.append("result with factory != result with tensor")
except Exception as e:
    bad.append("call with factories raised %s: %s" % (type(e).__name__, str(e)[:200].replace(chr(10), " | ")))
for i in SPEC["subset"]:
    for shp, k in facs[i].log:
        print("factory", i, facs[i].kind, facs[i].sig, "called with", shp, sorted(k))
        if tuple(shp) != tuple(SPEC["args"][i]["shape"]) or not all(type(s) is int for s in shp): bad.append("argument %d got shape %r, expected %r" % (i, shp, SPEC["args"][i]["shape"]))
        if not c13.kwargs_ok(facs[i].sig, k, SPEC["op"], i): bad.append("argument %d: factory(%s, %s) received keywords %r" % (i, facs[i].kind, facs[i].sig, sorted(k)))
print("call: einx.%s(%r) factories at %r kinds %r" % (SPEC["op"], SPEC["desc"], SPEC["subset"], SPEC["kinds"]))
if bad:
    print("REPRODUCED: " + "; ".join(bad)); sys.exit(1)
print("NOT-REPRODUCED"); sys.exit(0)
'''


def write_replay(case, r, conc):
    import hashlib, json, os

    spec = {"op": case["op"], "desc": case["desc"], "args": [replay.enc_array(a, k) for a, k in zip(conc, case["kinds"])], "kwargs": runner.jsonable(dict(case["kwargs"], **case["opts"])), "subset": r["subset"], "sigs": r["sigs"], "kinds": r.get("kinds", ["function"] * len(r["subset"])), "history": r.get("history", [])}
    text = json.dumps(runner.jsonable(spec))
    os.makedirs(os.path.join(runner.REPLAY_DIR, PROP), exist_ok=True)
    path = os.path.join(runner.REPLAY_DIR, PROP, "fact_" + hashlib.sha1(text.encode()).hexdigest()[:12] + ".py")
    with open(path, "w") as f:
        f.write(REPLAY.format(spec=text, hashseed=os.environ.get("PYTHONHASHSEED", "0")))
    return path


def misbehaving():
    """Concrete monitors: wrong type / wrong shape returned, rejected call, exactly-once on a cold cache."""
    import einx

    out = []
    x = np.arange(6.0).reshape(2, 3)
    for name, fac in [("wrong-type", lambda shape: np.zeros(shape).tolist()), ("wrong-shape", lambda shape: np.zeros(tuple(shape) + (1,))), ("wrong-shape-transposed", lambda shape: np.zeros(tuple(shape)[::-1] + (2,))), ("none", lambda shape: None)]:
        try:
            r = einx.add("a b, b", x, fac)
            out.append((name, f"returned {type(r).__name__}"))
        except Exception:  # noqa: BLE001
            out.append((name, "ok"))
    # wrong type with the right shape: anything that is not the backend's tensor type, even if numpy could consume it
    class ArrayLike:
        def __init__(self, shape):
            self.shape = tuple(shape)
            self.dtype = np.dtype("float64")
            self.ndim = len(self.shape)

        def __array__(self, dtype=None, copy=None):
            return np.zeros(self.shape)

    wrong = [
        ("wrong-type-memoryview", lambda shape: memoryview(np.zeros(shape))),
        ("wrong-type-array-like", lambda shape: ArrayLike(shape)),
        ("wrong-type-tuple", lambda shape: tuple(np.zeros(shape).tolist())),
        ("wrong-type-int", lambda shape: 0),
    ]
    forms = [
        ("add", lambda f: einx.add("a b, b", x, f)),
        ("id", lambda f: einx.id("a b, b -> a b, b", x, f)),
        ("dot", lambda f: einx.dot("a b, b c -> a c", x, f, c=2)),
        ("sum-of-factory", lambda f: einx.sum("a [b]", f, a=2, b=3)),
    ]
    for name, fac_ in wrong:
        for fname, form in forms:
            for attempt in ("first", "repeat"):
                try:
                    r = form(fac_)
                    out.append((f"{name}:{fname}:{attempt}", f"returned {type(r).__name__}"))
                except Exception:  # noqa: BLE001
                    out.append((f"{name}:{fname}:{attempt}", "ok"))
    calls = []

    def fac(shape):
        calls.append(shape)
        return np.ones(shape)

    try:
        einx.add("a b, b c", x, fac, c=2)  # rejected: ambiguous implicit output
        out.append(("rejected-call", "no exception"))
    except Exception:  # noqa: BLE001
        out.append(("rejected-call", "ok" if not calls else f"factory invoked {calls}"))
    try:
        einx.add("a b, c -> a b", x, fac)  # rejected: c undetermined / not in output
    except Exception:  # noqa: BLE001
        pass
    out.append(("rejected-call-2", "ok" if not calls else f"factory invoked {calls}"))
    calls.clear()
    einx.multiply("a b, a -> b a", x, fac)  # cold cache: compile + run
    out.append(("cold-exactly-once", "ok" if calls == [(2,)] else f"{calls}"))
    # a factory contributes no size constraints: without b the call must fail rather than take b from somewhere
    calls.clear()
    try:
        einx.id("a, b -> a b", np.zeros(2), fac)
        out.append(("no-constraints-from-factory", "no exception"))
    except Exception:  # noqa: BLE001
        out.append(("no-constraints-from-factory", "ok" if not calls else f"factory invoked {calls}"))
    return out


def main():
    tier, seed = runner.tier(), runner.seed()
    rep = runner.Report(PROP, "translation_validation")
    st = selftest.run(seed)
    if st["failures"]:
        rep.harness_error("primitive model self-test failed: " + "; ".join(st["failures"][:5]))
    mult = THOROUGH_MULT if tier == "thorough" else 1
    timeout_ms = 30000 if tier == "thorough" else 10000
    rng = random.Random(seed)
    items = []
    for fam, n in FAMS.items():
        for c in family.generate(fam, n * mult, seed + 13, tier):
            elig = [i for i, k in enumerate(c["kinds"]) if k != "coord"]
            subsets = [s for r in range(1, len(elig) + 1) for s in itertools.combinations(elig, r)]
            rng.shuffle(subsets)
            for sub in subsets[:2]:
                flags = [i not in sub for i in range(len(c["ins"]))]
                try:
                    kw = family.make_kwargs(rng, list(c["ins"]), list(c["outs"]), known_flags=flags)
                except ValueError:
                    continue
                c2 = dict(c, kwargs=kw)
                items.append((c2, sub, [rng.choice(SIGS) for _ in sub], timeout_ms))
                if fam == "elementwise" and c["op"] in ("add", "multiply", "maximum", "minimum") and c["kinds"] == ["int"] * len(c["kinds"]) and rng.random() < 0.5:
                    # the same call through a user function adapted with adapt_numpylike_elementwise
                    items.append((dict(c2, op="adapted:" + c["op"]), sub, [rng.choice(SIGS) for _ in sub], timeout_ms))
    results = runner.pmap(work, items, chunksize=4)
    status = collections.Counter()
    sig_count = collections.Counter()
    samples, nontrivial = [], set()
    solver_s = 0.0
    for (case, sub, sigs, _), r in zip(items, results):
        st_ = r["status"]
        if (st_ == "violation?" or st_ == "discipline-violation") and not BUDGET.take():
            st_ = "sat-not-replayed"
        elif st_ == "violation?" or st_ == "discipline-violation":
            conc = replay.clamp_coords(case, replay.conc_arrays(case, r.get("model_inputs") or [np.zeros(shape(expand(e)), dtype=object) for e in case["ins"]]))
            path = write_replay(case, r, conc)
            ok, out = replay.run_script(path, python=replay.VENV_PY)
            st_ = "violation" if ok else "not-reproduced"
            r["replay"], r["replay_out"] = path, out[-1200:]
        status[st_] += 1
        solver_s += r.get("solver_s", 0.0)
        if st_ == "holds":
            for s in sigs:
                sig_count[s] += 1
            nontrivial.add((case["op"], case["desc"], tuple(sub), tuple(sigs)))
            if len(samples) < 8 and len(sub) >= 1 and len(case["kwargs"]) >= 1:
                samples.append({"call": f"einx.{case['op']}({case['desc']!r})", "factory_positions": list(sub), "signatures": list(sigs), "kwargs": runner.jsonable(case["kwargs"]), "shapes_expected": [list(shape(expand(case["ins"][i]))) for i in sub], "verdict": r.get("verdict")})
        elif st_ == "violation":
            sig = {"op": case["op"], "desc": case["desc"], "subset": list(sub), "sigs": list(sigs)}
            rep.violation(sig, r["replay"], f"einx.{case['op']}({case['desc']!r}) factories at {list(sub)} {list(sigs)}: {r.get('problems')}\n{r.get('replay_out', '')[-600:]}")
        elif st_ == "not-reproduced":
            rep.harness_error(f"factory finding did not reproduce: {case['op']} {case['desc']!r} {r.get('problems')} replay={r.get('replay')} {r.get('replay_out', '')[-300:]}")
        elif st_ == "harness-error":
            rep.harness_error(f"{r.get('error')} {r.get('trace', '')[-600:]}")
        else:
            rep.inconclusive.append({"why": st_, "op": case["op"], "desc": case["desc"], "subset": list(sub), "kwargs": r.get("kwargs"), "error": r.get("error")})
    mons = misbehaving()
    for name, outcome in mons:
        if outcome != "ok":
            rep.violation({"monitor": name, "outcome": outcome}, monitor_replay(name), f"monitor {name}: {outcome}")
    rep.coverage = {
        "programs": len(items),
        "disagreements_checked": status["violation"] + status["not-reproduced"],
        "samples": samples,
        "evaluations": len(items),
        "distinct_nontrivial": len(nontrivial),
        "rule": "one harness = (operation, description, subset of argument positions replaced by factories, factory signatures): graph=True, first execution, cached repeat and the tensor-argument twin; non-trivial = z3 proved equal results for all contents AND shapes/keywords/invocation counts as stated",
        "status_counts": dict(status),
        "factory_signatures_in_passing_harnesses": dict(sig_count),
        "concrete_monitors": dict(mons),
        "solver_time_s": round(solver_s, 3),
        "bounds": family.Bounds(tier).as_dict(),
        "decided_by_solver": "(i) equality of results for all contents; (ii)/(iii) shapes, keywords and invocation counts are concrete observations on the same runs",
    }
    rep.assumptions = ["factories are pure: return the same tensor on every invocation", "coordinate tensors are never replaced by factories in this check"]
    rep.finish()


def monitor_replay(name):
    import os

    os.makedirs(os.path.join(runner.REPLAY_DIR, PROP), exist_ok=True)
    path = os.path.join(runner.REPLAY_DIR, PROP, f"monitor_{name.replace(':', '_')}.py")
    with open(path, "w") as f:
        f.write(
            "#!/verif/.venv/bin/python\nimport sys\nsys.path.insert(0, '/verif')\nsys.path.insert(0, '/repo')\n"
            "from checks.c13 import misbehaving\n"
            f"bad = [m for m in misbehaving() if m[0] == {name!r} and m[1] != 'ok']\n"
            "print('REPRODUCED: ' + str(bad) if bad else 'NOT-REPRODUCED')\nsys.exit(1 if bad else 0)\n"
        )
    return path


if __name__ == "__main__":
    main()
