"""C12 — the expression parser is total and stable under re-printing and extra spacing.

CrossHair (z3-driven symbolic execution) runs einx's real stage1.parse_op, the real __str__ of the tree
classes and the real pre-solve stage of every operation family on token sequences chosen by symbolic
integers; "Confirmed over all paths" is exhaustive for the stated alphabet and length. See DESIGN.md §3 C12.
"""

import collections
import re
import sys

from vlib import replay, runner, xgen, xhair

PROP = "C12"
FAMILIES = ["id", "elementwise", "reduce", "dot", "get_at", "update_at", "argfind", "preserve_shape"]


def plan(tier):
    """(module path, per-condition timeout, bug_finding_only)"""
    mods = []
    sys.path.insert(0, "/verif/xh")
    import c12_lib as L

    NCH, NCH12 = len(L.CHUNKS), len(L.CH12)
    if tier == "quick":
        mods.append((xgen.parser_module("c12_total_k3", "TOK13", 13, 3, "total"), 120, False))
        mods.append((xgen.parser_module("c12_total_k4", "TOK9", 9, 4, "total"), 400, False))
        # characters that are special to formatting / regex templates: messages must quote them unchanged
        mods.append((xgen.parser_module("c12_total_bs_k3", "TOKBS", len(L.TOKBS), 3, "total"), 300, False))
        mods.append((xgen.parser_module("c12_entry_bs_k2", "TOKBS", len(L.TOKBS), 2, "entry", fixed=0, families=FAMILIES), 300, False))
        mods.append((xgen.parser_module("c12_reprint_k2", "CHUNKS", NCH, 2, "reprint", fixed=0), 200, False))
        mods.append((xgen.parser_module("c12_reprint_k3", "CH12", NCH12, 3, "reprint"), 200, False))
        mods.append((xgen.parser_module("c12_spacing_k2", "CHUNKS", NCH, 2, "spacing", fixed=0), 300, False))
        mods.append((xgen.parser_module("c12_spacing_k3", "SP8", 8, 3, "spacing"), 400, False))
        mods.append((xgen.corpus_spacing_module("c12_corpus_spacing", 40, step=5, maxgap=12), 300, False))
        mods.append((xgen.parser_module("c12_entry_k2", "CHUNKS", NCH, 2, "entry", fixed=0, families=FAMILIES), 300, False))
        mods.append((xgen.api_verbatim_module("c12_api", ["sum", "id", "dot", "get_at", "solve_axes"], len(L.API_TOK), 3), 400, False))
        mods.append((xgen.h1_module("c12_h1", 3), 60, True))
    else:
        mods.append((xgen.parser_module("c12_total_k4", "TOK17", 17, 4, "total"), 3000, False))
        mods.append((xgen.parser_module("c12_total_k5", "TOK12", 12, 5, "total", fixed=2), 3000, False))
        mods.append((xgen.parser_module("c12_reprint_k4", "CHUNKS", NCH, 4, "reprint", fixed=2), 3000, False))
        mods.append((xgen.parser_module("c12_spacing_k3", "CHUNKS", NCH, 3, "spacing"), 3000, False))
        mods.append((xgen.parser_module("c12_entry_k3", "CHUNKS", NCH, 3, "entry", fixed=1, families=FAMILIES), 3000, False))
        mods.append((xgen.corpus_spacing_module("c12_corpus_spacing", 40, step=2, maxgap=40), 3000, False))
        mods.append((xgen.api_verbatim_module("c12_api", ["sum", "id", "dot", "get_at", "softmax", "solve_axes"], len(L.API_TOK), 4), 3000, False))
        mods.append((xgen.h1_module("c12_h1", 4), 600, True))
    return mods


_CALLARGS = re.compile(r"\((.*)\)$")


def text_of_call(cond):
    """Reconstruct the description string a counterexample call denotes."""
    sys.path.insert(0, "/verif/xh")
    import c12_lib as L

    name, call = cond["name"], cond.get("call") or ""
    m = _CALLARGS.search(call)
    if not m:
        return None, None
    try:
        args = eval("[" + m.group(1) + "]", {"True": True, "False": False})  # noqa: S307 - CrossHair's own repr of ints/bools/str
    except Exception:  # noqa: BLE001
        return None, None
    if name == "cond_anystring":
        return args[0] if args else None, None
    if name.startswith("cond_apiverbatim"):
        try:
            return "".join(L.API_TOK[i] for i in args if isinstance(i, int)), None
        except Exception:  # noqa: BLE001
            return None, None
    if name.startswith("cond_corpus_spacing"):
        try:
            d, g1, g2 = args[:3]
            desc = L.CORPUS[d]
            gaps = L.redundant_gaps(desc)
            p1, p2 = sorted([gaps[g1 % len(gaps)], gaps[g2 % len(gaps)]])
            return desc[:p1] + " " + desc[p1:p2] + " " + desc[p2:], None
        except Exception:  # noqa: BLE001
            return None, None
    mm = re.match(r"cond_(total|reprint|spacing|entry)_(?:(\w+?)_)?k(\d+)_t([\d_]*)$", name)
    if not mm:
        return None, None
    kind, fam, k, first = mm.group(1), mm.group(2), int(mm.group(3)), mm.group(4)
    firsts = [int(x) for x in first.split("_") if x != ""]
    alpha = {"c12_total_bs_k3": L.TOKBS, "c12_entry_bs_k2": L.TOKBS, "c12_total_k3": L.TOK13, "c12_total_k4": L.TOK9, "c12_total_k5": L.TOK12, "c12_spacing_k3": L.SP8, "c12_reprint_k3": L.CH12}
    mod = cond["file"].split("/")[-1][:-3]
    alphabet = alpha.get(mod, L.CHUNKS)
    if mod == "c12_total_k4" and runner.tier() == "thorough":
        alphabet = L.TOK17
    if mod == "c12_spacing_k3" and runner.tier() == "thorough":
        alphabet = L.CHUNKS
    ints = [a for a in args if isinstance(a, int) and not isinstance(a, bool)]
    idx = firsts + ints[: k - len(firsts)]
    try:
        return "".join(alphabet[i] for i in idx), fam
    except Exception:  # noqa: BLE001
        return None, fam


def main():
    tier, seed = runner.tier(), runner.seed()
    rep = runner.Report(PROP, "other")
    mods = plan(tier)
    bug_only_files = {p for p, _, b in mods if b}
    pool = xhair.start_many([(p, t) for p, t, _ in mods], max_parallel=runner.nprocs())
    verdicts = collections.Counter()
    by_module = collections.defaultdict(collections.Counter)
    samples, confirmed = [], set()
    cpu_s = 0.0
    n_cond = 0
    import c12_lib as L  # noqa: E402  (path inserted by text_of_call on demand)

    res = xhair.finish(pool)
    for _ in [0]:
        for c in res["conditions"]:
            path = c["file"]
            mod = path.split("/")[-1][:-3]
            bug_only = path in bug_only_files
            n_cond += 1
            cpu_s += c["seconds"]
            v = c["verdict"]
            if bug_only and v in ("not-confirmed", "timeout", "confirmed", "no-precondition"):
                v = "bug-finding-only:" + v
            verdicts[v] += 1
            by_module[mod][v] += 1
            if v == "confirmed":
                confirmed.add((mod, c["name"]))
                if len(samples) < 6 and by_module[mod]["confirmed"] <= 1:
                    samples.append({"module": mod, "condition": c["name"], "verdict": "Confirmed over all paths", "seconds": c["seconds"]})
            elif v == "counterexample":
                text, fam = text_of_call(c)
                path_r = xhair.write_replay(PROP, c)
                ok, out = replay.run_script(path_r, python=replay.VENV_PY)
                if not ok:
                    rep.harness_error(f"CrossHair counterexample did not reproduce: {c['name']} {c['call']} {out[-300:]}")
                    continue
                sig = {"condition_kind": c["name"].split("_")[1], "text": text, "family": fam}
                if sig["condition_kind"] == "reprint" and text is not None:
                    try:
                        sig["printed_has_brace"] = "{" in str(L.parse_op(text))
                    except Exception:  # noqa: BLE001
                        sig["printed_has_brace"] = False
                if fam and text is not None:
                    d = L.diagnose_entry(fam, text)
                    sig.update({"outcome": d.get("outcome"), "quoted_has_brace": d.get("quoted_has_brace", False)})
                rep.violation(sig, path_r, f"{c['name']}: description {text!r}: {c['message'][-300:]}\n{out[-400:]}")
            elif v == "twin-not-refuted":
                rep.harness_error(f"vacuity twin {c['name']} was not refuted: {c['message'][-200:]}")
            elif v in ("twin-refuted",) or v.startswith("bug-finding-only"):
                pass
            else:
                rep.inconclusive.append({"why": "crosshair " + v, "condition": c["name"], "module": mod, "message": c["message"][-200:]})
    rep.coverage = {
        "explanation": "CrossHair executes the real parser / printer / pre-solve entry stage symbolically over token-index inputs; each 'confirmed' condition is exhaustive for its alphabet and length (first token(s) fixed per condition for parallelism). The arbitrary-character condition (symbolic str) is bug-finding only.",
        "evaluations": n_cond,
        "distinct_nontrivial": len(confirmed),
        "rule": "one condition = (harness kind, token alphabet, sequence length, fixed leading token(s)); non-trivial = CrossHair reports 'Confirmed over all paths'",
        "samples": samples,
        "verdict_counts": dict(verdicts),
        "by_module": {k: dict(v) for k, v in by_module.items()},
        "crosshair_cpu_s": round(cpu_s, 1),
        "bounds": {
            "quick": "total: 13 tokens^3 and 9 tokens^4; re-print: 19 chunks^2 and 13 chunks^3; spacing: 19 chunks^2 x 2 flags, 8 chunks^3 x 3 flags and 40 corpus descriptions x 2 redundant-gap positions; el_op re-print through 8 entry families: 19 chunks^2; arbitrary str <= 3 chars (60 s, bug finding)",
            "thorough": "total: 17^4 and 12^5; re-print 19^4; spacing 19^3 and the corpus with all gap pairs; entry 19^3 x 8; arbitrary str <= 4 chars (600 s)",
        }[tier],
        "functions_encoded": ["einx._src.namedtensor.stage1.parse.parse_op", "frontend.api op wrappers + util.lru_cache._freeze_args (description handed to the parser verbatim)", "stage1.tree.*.__str__", "einx_from_namedtensor._parse_op/_to_el_expr/op.inner (up to the solver cut)", "frontend.errors.SyntaxError/SemanticError constructors", "namedtensor.util.ExpressionIndicator"],
    }
    rep.assumptions = [
        "the sympy-backed solver is cut (stubbed to raise a sentinel): everything before it runs for real",
        "tokens come from the stated alphabets; strings outside are only covered by the bug-finding condition",
    ]
    rep.finish()


if __name__ == "__main__":
    sys.path.insert(0, "/verif/xh")
    main()
