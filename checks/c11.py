"""C11 — backend selection follows the documented precedence and is stable.

CrossHair executes the REAL BackendRegistryState methods (_get, _get_by_name, _get_by_tensors,
_register_on_import, _check_new_imports, _enter/_exit, _run_factory) on registries populated with synthetic
Backend / InvalidBackend instances. Priorities are symbolic unbounded integers (all values and ties), the
argument-type tuple is a symbolic selector; configurations, registration orders, lazy/eager registration,
failing factories and one-step histories are enumerated, one condition each. See DESIGN.md §3 C11.
"""

import collections
import sys

from vlib import replay, runner, xgen, xhair

PROP = "C11"


def main():
    tier, seed = runner.tier(), runner.seed()
    rep = runner.Report(PROP, "other")
    mod = xgen.c11_module("c11_registry", tier)
    pool = xhair.start_many([(mod, 240 if tier == "quick" else 1800)], max_parallel=runner.nprocs())
    res = xhair.finish(pool)
    verdicts = collections.Counter()
    groups = collections.defaultdict(collections.Counter)
    confirmed = set()
    samples = []
    for c in res["conditions"]:
        v = c["verdict"]
        verdicts[v] += 1
        g = c["name"].split("_")[1]
        groups[g][v] += 1
        if v == "confirmed":
            confirmed.add(c["name"])
            if len(samples) < 8 and groups[g]["confirmed"] <= 2:
                samples.append({"condition": c["name"], "verdict": "Confirmed over all paths", "seconds": c["seconds"]})
        elif v == "counterexample":
            path = xhair.write_replay(PROP, c)
            ok, out = replay.run_script(path, python=replay.VENV_PY)
            if ok:
                rep.violation({"condition": c["name"], "call": c["call"]}, path, f"{c['name']}: {c['message'][-300:]}\n{out[-300:]}")
            else:
                rep.harness_error(f"CrossHair counterexample did not reproduce: {c['name']} {c['call']} {out[-300:]}")
        elif v == "twin-not-refuted":
            rep.harness_error(f"vacuity twin {c['name']} was not refuted: {c['message'][-200:]}")
        elif v == "twin-refuted":
            pass
        else:
            rep.inconclusive.append({"why": "crosshair " + v, "condition": c["name"], "message": c["message"][-200:]})
    rep.coverage = {
        "explanation": "Each condition fixes a registry configuration (backend set over 3 synthetic frameworks with disjoint tensor types, registration order, lazy/eager registration and which framework modules are imported, failing factories, one earlier step) and leaves the priorities (unbounded ints) and the argument-type tuple (12 tuples over ndarray / Python scalars / two framework tensor types / an unknown type) symbolic; the real lookup result must equal a 20-line specification function transcribed from the documentation.",
        "evaluations": len(res["conditions"]),
        "distinct_nontrivial": len(confirmed),
        "rule": "one condition = one configuration; non-trivial = 'Confirmed over all paths' (all priority values incl. ties, all 12 argument tuples)",
        "samples": samples,
        "verdict_counts": dict(verdicts),
        "by_group": {k: dict(v) for k, v in groups.items()},
        "crosshair_wall_s": res["wall_s"],
        "bounds": {"backends": "3-4 per registry; configurations A,C (quick) / A-D (thorough)", "frameworks": 3, "argument_tuples": "6 (quick) / 12 (thorough)", "histories": "0 or 1 earlier step (lookup, unrelated registration, enter/exit, same lookup)", "orders": "3 per configuration (quick) / all permutations (thorough)"},
        "functions_encoded": ["BackendRegistryState._get", "_get_by_name", "_get_by_tensors", "_register", "_register_on_import", "_run_factory", "_check_new_imports", "_enter", "_exit", "Backend", "InvalidBackend"],
        "outside": "real framework imports (not installed); duplicate backend names; all backends of one framework are registered under one module name (as in einx)",
    }
    rep.assumptions = ["sys.modules is stubbed by pre-seeding seen_module_names; lazy registration is driven by inserting dummy module names", "different frameworks accept disjoint tensor types; ndarray and Python scalars are accepted by framework 0 only"]
    rep.finish()


if __name__ == "__main__":
    main()
