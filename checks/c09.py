"""C09 — arguments are never modified (except the documented in-place *_at target).

SymArray data movement is real numpy on an object buffer, so reshape returns a view exactly when numpy would
and the symbolic store model writes through views. Every argument (and its base buffer) is snapshotted
before the call; afterwards z3 is asked whether any cell can differ for some contents/coordinates.
"""

import collections
import os
import copy
import random

import numpy as np
import z3

from vlib import elem, family, harness, prove, replay, runner, selftest, symarray as S
from vlib.desc import expand, shape

PROP = "C09"
FAMS = {"id": 80, "elementwise": 80, "reduce": 80, "dot": 40, "get_at": 60, "preserve": 160, "argfind": 40, "update": 120}
THOROUGH_MULT = 10
LAYOUTS = ["C", "T", "sliced", "broadcast", "readonly"]


def make_layout(name, kind, sh, layout):
    """Returns (array handed to einx, base buffer array, layout tag actually used)."""
    sort = {"int": "int", "coord": "int", "bool": "bool"}[kind]
    sh = tuple(sh)
    if layout == "T" and len(sh) >= 2:
        base = S.fresh(name, sh[::-1], sort)
        return base.T, base, "T"
    if layout == "sliced" and len(sh) >= 1 and sh[-1] >= 1:
        base = S.fresh(name, sh[:-1] + (2 * sh[-1],), sort)
        return base[..., ::2], base, "sliced"
    if layout == "broadcast" and len(sh) >= 1 and kind != "coord":
        d = max(range(len(sh)), key=lambda i: sh[i])
        bsh = sh[:d] + (1,) + sh[d + 1 :]
        base = S.fresh(name, bsh, sort)
        v = np.broadcast_to(base, sh)
        return v, base, f"broadcast:{d}"
    if layout == "readonly":
        base = S.fresh(name, sh, sort)
        base.flags.writeable = False
        return base, base, "readonly"
    base = S.fresh(name, sh, sort)
    return base, base, "C"


def cells(a):
    p = S.plain(a)
    return [p[idx] for idx in np.ndindex(*p.shape)]


def meta(a):
    p = S.plain(a)
    return (p.shape, p.strides, bool(p.flags.writeable), str(p.dtype))


def changed_formula(before, after):
    diffs = []
    for b, a in zip(before, after):
        if prove._same(a, b):
            continue
        d = elem.ne(a, b)
        if d is False:
            continue
        diffs.append(z3.BoolVal(True) if d is True else elem.z(d))
    return z3.Or(*diffs) if diffs else None


SHADOW_FN = '''
def shadow_layout(kind, sh, layout, salt):
    """Concrete counterpart of make_layout: same view structure, distinct DEscending contents (an in-place sort,
    reversal or accumulation changes them)."""
    import numpy as np
    sh = tuple(sh)
    def fill(shape):
        n = int(np.prod(shape)) if shape else 1
        if kind == "bool":
            return ((np.arange(n) + salt) % 3 == 0).reshape(shape)
        if kind == "coord":
            return np.zeros(shape, dtype=np.int64)
        return ((n - np.arange(n, dtype=np.int64)) * 3 + salt).reshape(shape)
    tag = layout.split(":")[0]
    if tag == "T":
        base = fill(sh[::-1]); return base.T, base
    if tag == "sliced":
        base = fill(sh[:-1] + (2 * sh[-1],)); return base[..., ::2], base
    if tag == "broadcast":
        d = int(layout.split(":")[1])
        base = fill(sh[:d] + (1,) + sh[d + 1:]); return np.broadcast_to(base, sh), base
    if tag == "readonly":
        base = fill(sh); base.flags.writeable = False; return base, base
    base = fill(sh); return base, base
def shadow_run(spec):
    import numpy as np, einx
    def tup(v): return tuple(tup(x) for x in v) if isinstance(v, list) else v
    arrs, bases = [], []
    for i, (k, sh, lay) in enumerate(zip(spec["kinds"], spec["shapes"], spec["layouts"])):
        a, b = shadow_layout(k, sh, lay, i)
        arrs.append(a); bases.append(b)
    snap = [(b.copy(), a.shape, a.strides, bool(a.flags.writeable), str(a.dtype)) for a, b in zip(arrs, bases)]
    kw = {k: tup(v) for k, v in spec["kwargs"].items()}
    try:
        getattr(einx, spec["op"])(spec["desc"], *arrs, **kw)
        outcome = "ok"
    except Exception as e:
        outcome = "raised " + type(e).__name__
    changed = []
    for i, (a, b, (b0, shp, st, wr, dt)) in enumerate(zip(arrs, bases, snap)):
        if i in spec["allowed"]:
            continue
        if not np.array_equal(b, b0) or (a.shape, a.strides, bool(a.flags.writeable), str(a.dtype)) != (shp, st, wr, dt):
            changed.append({"argument": i, "layout": spec["layouts"][i], "before": b0.tolist(), "after": b.tolist()})
    return outcome, changed
'''
exec(SHADOW_FN)


def shadow_spec(case, tags, mode):
    return {"op": case["op"], "desc": case["desc"], "kinds": list(case["kinds"]), "shapes": [list(shape(expand(e))) for e in case["ins"]], "layouts": list(tags), "kwargs": runner.jsonable(dict(case["kwargs"], **case["opts"], **({"graph": True} if mode == "graph" else {}))), "allowed": [0] if case["family"] == "update" and mode != "graph" else []}


def write_shadow_replay(spec):
    import hashlib, json, os

    text = json.dumps(spec)
    os.makedirs(os.path.join(runner.REPLAY_DIR, PROP), exist_ok=True)
    path = os.path.join(runner.REPLAY_DIR, PROP, "layout_" + hashlib.sha1(text.encode()).hexdigest()[:12] + ".py")
    with open(path, "w") as f:
        f.write("#!/venv/bin/python\n\"\"\"Replay (C09): the call on plain numpy arrays in the given memory layouts; every protected argument (and the buffer it views) must be unchanged afterwards.\"\"\"\nimport json, sys\nsys.path.insert(0, '/repo')\n" + SHADOW_FN + "SPEC = json.loads(r'''" + text + "''')\noutcome, changed = shadow_run(SPEC)\nprint('call: einx.%s(%r) layouts=%r ->' % (SPEC['op'], SPEC['desc'], SPEC['layouts']), outcome)\nfor c in changed:\n    print('  argument %d (%s): before %r after %r' % (c['argument'], c['layout'], c['before'], c['after']))\nif changed:\n    print('REPRODUCED: einx modified an argument it must not modify'); sys.exit(1)\nprint('NOT-REPRODUCED'); sys.exit(0)\n")
    return path


RACE_REPLAY = r'''#!/venv/bin/python
"""Replay (C09): an *_at call whose thread is paused inside {function}() ({file}) right after that function touched
the shared object `{obj}`, while another thread makes a read-only einx call on the same arrays in another order.
Afterwards only the *_at target may have changed."""
import sys, threading
sys.path.insert(0, "/repo")
import numpy as np
import einx
FILE, FUNC, LINE = {file!r}, {function!r}, {line}
a_in, b_done = threading.Event(), threading.Event()
def tracer(frame, event, arg):
    if event == "call":
        co = frame.f_code
        if co.co_name == FUNC and co.co_filename.endswith(FILE):
            return local
        return tracer
    return None
def local(frame, event, arg):
    if event == "return" and not a_in.is_set():
        a_in.set(); b_done.wait(20)
    return local
bad = []
for op, sign in (("add_at", 1), ("subtract_at", -1), ("set_at", 0)):
    a_in.clear(); b_done.clear()
    x = np.zeros(4); idx = np.array([0, 1, 1, 3]); u = np.array([1.0, 2.0, 3.0, 4.0])
    u0, idx0 = u.copy(), idx.copy()
    out = {{}}
    def run_a():
        sys.settrace(tracer)
        try: out["A"] = getattr(einx, op)("[h], p, p", x, idx, u)
        except Exception as e: out["A"] = "raised " + type(e).__name__
        finally: sys.settrace(None); a_in.set()
    def run_b():
        a_in.wait(20)
        try: out["B"] = einx.add("p, p, p", u, idx, x)
        except Exception as e: out["B"] = "raised " + type(e).__name__
        finally: b_done.set()
    ta, tb = threading.Thread(target=run_a), threading.Thread(target=run_b)
    ta.start(); tb.start(); ta.join(60); tb.join(60)
    if not np.array_equal(u, u0) or not np.array_equal(idx, idx0):
        bad.append(op)
        print("einx.%s('[h], p, p', x, idx, u): updates before %r after %r; coordinates before %r after %r" % (op, u0.tolist(), u.tolist(), idx0.tolist(), idx.tolist()))
if bad:
    print("REPRODUCED: a coordinate / update tensor of an *_at call was modified"); sys.exit(1)
print("NOT-REPRODUCED"); sys.exit(0)
'''


def race_probe(rep):
    """Objects that outlive a call and are mutated without a lock in the API layer (found from the AST, see C10) can
    make one call run on another call's tensors: replay an *_at call against a concurrent read-only call."""
    from checks import c10

    cands = [c for c in c10.scan_unsynchronised_mutables() if "/frontend/" in c["file"] or "/util/" in c["file"]]
    res = []
    for cand in cands:
        os.makedirs(os.path.join(runner.REPLAY_DIR, PROP), exist_ok=True)
        path = os.path.join(runner.REPLAY_DIR, PROP, f"race_{os.path.basename(cand['file'])[:-3]}_{cand['function']}_{cand['object']}.py")
        with open(path, "w") as f:
            f.write(RACE_REPLAY.format(file=cand["file"], function=cand["function"], obj=cand["object"], line=cand["line"]))
        ok, out = replay.run_script(path, timeout=200)
        res.append(dict(cand, reproduced=ok))
        if ok:
            rep.violation({"kind": "argument-modified-under-interleaving", "file": cand["file"], "function": cand["function"], "object": cand["object"]}, path, f"{cand['kind']} `{cand['object']}` mutated in {cand['function']}() ({cand['file']}): an *_at call ran on another call's tensors\n{out[-600:]}")
    return res


def container_meta(v):
    """Identity-level facts of an object passed as a size or option: type, and for arrays shape/dtype/flags."""
    if isinstance(v, np.ndarray):
        return (type(v).__name__, v.shape, str(v.dtype), bool(v.flags.writeable), bool(v.flags.c_contiguous), bool(v.flags.owndata))
    if isinstance(v, (list, tuple)):
        return (type(v).__name__, len(v), tuple(type(x).__name__ for x in v))
    return (type(v).__name__,)


CONTAINER_REPLAY = r'''#!/venv/bin/python
"""Replay (C09): objects passed as sizes / options must be left exactly as they were (contents, type, flags)."""
import json, sys
sys.path.insert(0, "/repo")
import numpy as np
import einx
SPEC = json.loads(r"""{spec}""")
def build(v):
    if isinstance(v, dict) and v.get("kind") == "ndarray": return np.array(v["data"])
    if isinstance(v, dict) and v.get("kind") == "int64": return np.int64(v["data"])
    if isinstance(v, dict) and v.get("kind") == "tuple": return tuple(v["data"])
    return v
def meta(v):
    if isinstance(v, np.ndarray): return (type(v).__name__, v.shape, str(v.dtype), bool(v.flags.writeable), bool(v.flags.c_contiguous), bool(v.flags.owndata), v.tolist())
    if isinstance(v, (list, tuple)): return (type(v).__name__, list(v))
    return (type(v).__name__, v)
args = [np.zeros(s, dtype=(bool if k == "bool" else np.int64)) for s, k in zip(SPEC["shapes"], SPEC["kinds"])]
kw = {{k: build(v) for k, v in SPEC["kwargs"].items()}}
before = {{k: meta(v) for k, v in kw.items()}}
print("call: einx.%s(%r, <zeros %r>, **%r)" % (SPEC["op"], SPEC["desc"], SPEC["shapes"], kw))
try:
    getattr(einx, SPEC["op"])(SPEC["desc"], *args, **kw)
except Exception as e:
    print("raised", type(e).__name__)
bad = [k for k in kw if meta(kw[k]) != before[k]]
for k in bad:
    print("  %s: before %r  after %r" % (k, before[k], meta(kw[k])))
if bad:
    print("REPRODUCED: einx changed an object passed as a size/option"); sys.exit(1)
print("NOT-REPRODUCED"); sys.exit(0)
'''


def write_container_replay(case, kw, mode):
    import hashlib, json, os

    def enc(v):
        if isinstance(v, np.ndarray):
            return {"kind": "ndarray", "data": v.tolist()}
        if isinstance(v, np.integer):
            return {"kind": "int64", "data": int(v)}
        if isinstance(v, tuple):
            return {"kind": "tuple", "data": list(v)}
        return v

    spec = {"op": case["op"], "desc": case["desc"], "shapes": [list(shape(expand(e))) for e in case["ins"]], "kinds": case["kinds"], "kwargs": {k: enc(v) for k, v in kw.items()}}
    text = json.dumps(runner.jsonable(spec))
    os.makedirs(os.path.join(runner.REPLAY_DIR, PROP), exist_ok=True)
    path = os.path.join(runner.REPLAY_DIR, PROP, "containers_" + hashlib.sha1(text.encode()).hexdigest()[:12] + ".py")
    with open(path, "w") as f:
        f.write(CONTAINER_REPLAY.format(spec=text))
    return path


def work_solve_api(case):
    """solve_axes / solve_shapes / matches with sizes given as numpy arrays (int64, C-contiguous - what solve_axes itself
    returns for ellipsis axes), 0-d arrays and numpy scalars: the size objects must come back untouched."""
    import einx
    from vlib.desc import show_expr

    desc_in = ", ".join(show_expr(e) for e in case["ins"])
    res = {"desc": desc_in, "op": "solve_*", "layouts": ["C"] * len(case["ins"]), "mode": "solve-api", "status": "holds", "call": "ok"}
    for api in ("solve_axes", "solve_shapes", "matches"):
        for variant in ("array", "0d"):
            kw = {}
            for k, v in case["kwargs"].items():
                if isinstance(v, tuple):
                    kw[k] = np.array(v, dtype=np.int64)
                elif variant == "0d":
                    kw[k] = np.array(v, dtype=np.int64)
                else:
                    kw[k] = np.int64(v)
            snap = copy.deepcopy(kw)
            metas = {k: container_meta(v) for k, v in kw.items()}
            arrays = [np.zeros(shape(expand(e))) for e in case["ins"]]
            try:
                getattr(einx, api)(desc_in, *arrays, **kw)
            except Exception:  # noqa: BLE001
                pass
            same = all(container_meta(kw[k]) == metas[k] and np.array_equal(np.asarray(kw[k]), np.asarray(snap[k])) for k in kw)
            if not same:
                path = write_container_replay(dict(case, op=api, desc=desc_in), snap, "solve-api")
                ok, out = replay.run_script(path)
                res["replay"], res["replay_out"] = path, out[-800:]
                res["status"] = "container-modified" if ok else "not-reproduced"
                res["op"] = api
                return res
    return res


def work(item):
    case, layouts, timeout_ms, mode = item
    if mode == "solve-api":
        return work_solve_api(case)
    arrs, bases, tags = [], [], []
    for i, (e, kind) in enumerate(zip(case["ins"], case["kinds"])):
        a, b, t = make_layout(f"{'c' if kind == 'coord' else 't'}{i}", kind, shape(expand(e)), layouts[i])
        arrs.append(a)
        bases.append(b)
        tags.append(t)
    snap_cells = [cells(b) for b in bases]
    snap_arg_cells = [cells(a) for a in arrs]
    snap_meta = [meta(a) for a in arrs]
    kw = dict(case["kwargs"])
    kw.update(case["opts"])
    # containers passed as sizes / options are compared concretely
    if mode.startswith("containers"):
        for k, v in list(kw.items()):
            if isinstance(v, tuple):
                kw[k] = np.array(v) if mode == "containers-array" else list(v)
            elif isinstance(v, int) and k not in ("keepdims",) and k in case["kwargs"]:
                kw[k] = np.int64(v) if mode == "containers-array" else v
    kw_snapshot = copy.deepcopy(kw)
    kw_meta = {k: container_meta(v) for k, v in kw.items()}
    extra = {"graph": True} if mode == "graph" else {}
    res = {"desc": case["desc"], "op": case["op"], "layouts": tags, "mode": mode}
    import einx

    try:
        out = getattr(einx, case["op"])(case["desc"], *arrs, **kw, **extra)
        res["call"] = "ok"
    except Exception as e:  # noqa: BLE001
        res["call"] = harness.classify_exception(e)
        res["error"] = f"{type(e).__name__}: {str(e)[:160]}"
    # concrete shadow on the same layouts: validates the symbolic write-set against a real execution, and is the
    # only observation left when the symbolic run was cut short (a primitive outside the model, or a comparison of
    # symbolic values inside numpy's own C code, e.g. an in-place ndarray.sort)
    if not mode.startswith("containers"):
        spec = shadow_spec(case, tags, mode)
        try:
            sh_outcome, sh_changed = shadow_run(spec)
        except Exception as e:  # noqa: BLE001
            sh_outcome, sh_changed = f"shadow failed: {type(e).__name__}", []
        res["shadow"] = sh_outcome
        if sh_changed:
            path = write_shadow_replay(spec)
            ok, out = replay.run_script(path)
            res["replay"], res["replay_out"] = path, out[-800:]
            res["status"] = "violation" if ok else "not-reproduced"
            res["arg"] = sh_changed[0]["argument"]
            return res
    if res["call"] == "unmodelled":
        res["status"] = "unmodelled"
        return res
    # containers unchanged?
    same_kw = set(kw) == set(kw_snapshot) and all(type(kw[k]) is type(kw_snapshot[k]) and np.array_equal(np.asarray(kw[k]), np.asarray(kw_snapshot[k])) for k in kw)
    same_kw = same_kw and all(container_meta(kw[k]) == kw_meta[k] for k in kw)
    if not same_kw:
        path = write_container_replay(case, kw_snapshot, mode)
        ok, out = replay.run_script(path)
        res["replay"], res["replay_out"] = path, out[-800:]
        res["status"] = "container-modified" if ok else "not-reproduced"
        return res
    allowed = {0} if case["family"] == "update" and mode != "graph" else set()
    assumptions = harness.coord_assumptions(case, [S.wrap(np.array(S.plain(a), dtype=object)) for a in arrs]) if case["family"] in ("get_at", "update") else []
    res["status"] = "holds"
    res["target_modified"] = None
    for i, (a, b) in enumerate(zip(arrs, bases)):
        if meta(a) != snap_meta[i]:
            if i not in allowed:
                res["status"] = "meta-changed"
                res["arg"] = i
                return res
        f_arg = changed_formula(snap_arg_cells[i], cells(a))
        f_base = changed_formula(snap_cells[i], cells(b))
        f = z3.Or(*[x for x in (f_arg, f_base) if x is not None]) if (f_arg is not None or f_base is not None) else None
        if i in allowed:
            if i == 0:
                res["target_modified"] = f is not None
            continue
        if f is None:
            continue
        v, model, dt = prove.solve(f, [], timeout_ms)
        res["solver_s"] = res.get("solver_s", 0) + dt
        if v == "unknown":
            res["status"] = "unknown"
        elif v == "sat":
            # replay on plain numpy with the same layouts
            conc = replay.clamp_coords(case, replay.conc_arrays(case, [prove.concretise(np.array(snap_arg_cells[j], dtype=object).reshape(S.plain(arrs[j]).shape) if True else None, model) for j in range(len(arrs))]))
            spec_call = replay.call_spec(case, conc, None)
            for j, t in enumerate(tags):
                spec_call["args"][j]["layout"] = t
            if mode == "graph":
                spec_call["kwargs"]["graph"] = True
            spec = {"call": spec_call, "expect": {"outputs": [], "inputs_unchanged": [j for j in range(len(arrs)) if j not in allowed]}}
            path = replay.write_script(PROP, f"einx.{case['op']}({case['desc']!r}) layouts={tags}", spec)
            ok, outtxt = replay.run_script(path)
            res["replay"], res["replay_out"] = path, outtxt[-1200:]
            res["status"] = "violation" if ok else "not-reproduced"
            if not ok and "NOT-REPRODUCED (exception)" in outtxt:
                # the symbolic store model has no dtypes: numpy refused this write (e.g. a float result cannot be cast
                # into an integer out= array), so nothing was modified
                res["status"] = "write-rejected-by-numpy"
            res["arg"] = i
            return res
    return res


def main():
    family.SAME_NAME_BRACKETS = True
    tier, seed = runner.tier(), runner.seed()
    rep = runner.Report(PROP, "translation_validation")
    st = selftest.run(seed)
    if st["failures"]:
        rep.harness_error("primitive model self-test failed: " + "; ".join(st["failures"][:5]))
    mult = THOROUGH_MULT if tier == "thorough" else 1
    timeout_ms = 30000 if tier == "thorough" else 10000
    rng = random.Random(seed)
    items = []
    for fam, n in FAMS.items():
        cases_f = family.generate(fam, n * mult, seed + 9, tier)
        if fam == "elementwise":
            # calls with one operand too many (its expression is the output's): whatever einx does with such a call,
            # it must not write into an argument
            from vlib.desc import show_expr

            extra = []
            for c in cases_f:
                lo, hi = family.ELEMENTWISE_ARITY[c["op"]]
                if lo == hi == len(c["ins"]) and len(c["outs"]) == 1:
                    ins2 = list(c["ins"]) + [c["outs"][0]]
                    extra.append(dict(c, ins=tuple(ins2), kinds=list(c["kinds"]) + ["int"], desc=", ".join(show_expr(e) for e in ins2) + " -> " + show_expr(c["outs"][0]), form="explicit", tags=sorted(set(c["tags"]) | {"operand-added"})))
            cases_f = cases_f + extra
        for c in cases_f:
            k = len(c["ins"])
            # every layout on every argument at least once (one argument varied at a time), plus a mixed one
            combos = [["C"] * k]
            for i in range(k):
                for lay in LAYOUTS[1:]:
                    if rng.random() < (0.6 if fam == "update" else 0.35):
                        l = ["C"] * k
                        l[i] = lay
                        combos.append(l)
            combos.append([rng.choice(LAYOUTS) for _ in range(k)])
            for l in combos:
                items.append((c, l, timeout_ms, "call"))
            if rng.random() < 0.2:
                items.append((c, ["C"] * k, timeout_ms, "graph"))
            if any(isinstance(v, tuple) for v in list(c["kwargs"].values()) + list(c["opts"].values())) or rng.random() < 0.1:
                items.append((c, ["C"] * k, timeout_ms, "containers-list"))
                items.append((c, ["C"] * k, timeout_ms, "containers-array"))
            if c["kwargs"] and fam not in ("update", "get_at") and rng.random() < 0.5:
                items.append((c, ["C"] * k, timeout_ms, "solve-api"))
    results = runner.pmap(work, items, chunksize=8)
    status = collections.Counter()
    lay_count = collections.Counter()
    target_mod = collections.Counter()
    calls = collections.Counter()
    samples, nontrivial = [], set()
    solver_s = 0.0
    for (case, lays, _, mode), r in zip(items, results):
        st_ = r["status"]
        status[st_] += 1
        solver_s += r.get("solver_s", 0.0)
        if st_ == "holds":
            for t in r["layouts"]:
                lay_count[t.split(":")[0]] += 1
            calls[r.get("call")] += 1
            nontrivial.add((case["op"], case["desc"], tuple(r["layouts"]), mode))
            if case["family"] == "update" and mode == "call":
                target_mod[(r["layouts"][0].split(":")[0], r.get("target_modified"))] += 1
            if len(samples) < 10 and r["layouts"] != ["C"] * len(r["layouts"]):
                samples.append({"call": f"einx.{case['op']}({case['desc']!r})", "layouts": r["layouts"], "mode": mode, "einx_outcome": r.get("call"), "target_modified_in_place": r.get("target_modified")})
        elif st_ in ("violation", "container-modified", "meta-changed"):
            sig = {"op": case["op"], "desc": case["desc"], "layouts": r["layouts"], "mode": mode, "kind": st_}
            rep.violation(sig, r.get("replay", "-"), f"einx.{case['op']}({case['desc']!r}) layouts={r['layouts']} mode={mode}: {st_} (argument {r.get('arg')})\n{r.get('replay_out', '')[-600:]}")
        elif st_ == "not-reproduced":
            rep.harness_error(f"counterexample did not reproduce: {case['op']} {case['desc']!r} layouts={r['layouts']} replay={r.get('replay')} {r.get('replay_out', '')[-300:]}")
        elif st_ == "harness-error":
            rep.harness_error(f"{r.get('error')} {r.get('trace', '')[-600:]}")
        else:
            rep.inconclusive.append({"why": st_, "op": case["op"], "desc": case["desc"], "layouts": r.get("layouts")})
    race = race_probe(rep)
    # vacuity: the alias tracking must see the documented in-place update of a contiguous *_at target
    if not any(k == ("C", True) for k in target_mod):
        rep.harness_error(f"alias tracking never observed the in-place update of a contiguous *_at target: {dict(target_mod)}")
    rep.coverage = {
        "programs": len(items),
        "disagreements_checked": status["violation"] + status["not-reproduced"],
        "samples": samples,
        "evaluations": len(items),
        "distinct_nontrivial": len(nontrivial),
        "rule": "one harness = (operation, description, per-argument memory layout, mode call/graph/containers); non-trivial = after the real call every cell of every protected argument and of its base buffer is term-identical to the snapshot, or z3 proved it cannot differ",
        "status_counts": dict(status),
        "layouts_in_passing_harnesses": dict(lay_count),
        "einx_outcomes_in_passing_harnesses": dict(calls),
        "shared_objects_in_api_layer_replayed_with_interleaving": race,
        "update_target_in_place_by_layout": {f"{k[0]}:{k[1]}": v for k, v in target_mod.items()},
        "solver_time_s": round(solver_s, 3),
        "model_selftest": {"checks": st["checks"], "failures": len(st["failures"])},
        "bounds": family.Bounds(tier).as_dict(),
    }
    rep.assumptions = [
        "object-dtype buffers have numpy's real view/copy behaviour for reshape/transpose/broadcast (same C code paths as numeric dtypes; dtype itself is therefore not varied)",
        "np.put / ufunc.at write only through the symbolic store model",
        "coordinates in range",
    ]
    rep.finish()


if __name__ == "__main__":
    main()
