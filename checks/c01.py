"""C01 — every built-in operation computes its loop-notation meaning.

For each member of the program family (vlib/family.py) and each registered numpy backend, the real
einx pipeline is run on SymArrays; z3 decides, for all tensor contents at that shape, whether the
result equals RefSem's loop semantics. See DESIGN.md §3 C01.
"""

import collections
import sys
import time

from vlib import family, harness, prove, replay, runner, selftest, symarray as S

PROP = "C01"
FAMILIES = ["id", "elementwise", "reduce", "dot", "get_at", "preserve", "argfind"]
QUICK_N = {"id": 260, "elementwise": 220, "reduce": 180, "dot": 110, "get_at": 90, "preserve": 110, "argfind": 80}
THOROUGH_N = {"id": 3000, "elementwise": 2500, "reduce": 2200, "dot": 1200, "get_at": 900, "preserve": 1200, "argfind": 900}
EINSUM_OPS = {"id", "sum", "multiply", "dot"}


def backends_for(case):
    if "dot-batch" in case["tags"]:
        return ["numpy", "numpy.numpylike", "numpy.einsum"]
    if "exhaustive" in case["tags"]:
        return ["numpy"]
    bs = ["numpy", "numpy.numpylike"]
    if case["op"] in EINSUM_OPS:
        bs.append("numpy.einsum")
    return bs


def work(item):
    case, backend, timeout_ms = item
    r = harness.decide(case, backend, timeout_ms=timeout_ms)
    r["family"] = case["family"]
    r["tags"] = case["tags"]
    r["kwargs"] = runner.jsonable(case["kwargs"])
    r["opts"] = runner.jsonable(case["opts"])
    r["shapes"] = [list(family.shape(family.expand(e))) for e in case["ins"]]
    if r["status"] == "violation?":
        ok, path, out = replay.replay_case(PROP, case, backend, r.pop("model_inputs"))
        r["replay"] = path
        r["replay_out"] = out[-1500:]
        r["status"] = "violation" if ok else "not-reproduced"
    elif r["status"] in ("shape-mismatch", "runtime-error", "internal-error"):
        # confirm on plain numpy: zeros of the right shapes through the public API
        import numpy as np

        conc = []
        for e, k in zip(case["ins"], case["kinds"]):
            sh = family.shape(family.expand(e))
            a = np.empty(sh, dtype=object)
            for pos in np.ndindex(*sh):
                a[pos] = False if k == "bool" else 0
            conc.append(a)
        exp = replay.expectation(case, conc) if r["status"] == "shape-mismatch" else {"outputs": [], "must_not_raise": True}
        exp["must_not_raise"] = True
        spec = {"call": replay.call_spec(case, conc, backend), "expect": exp}
        path = replay.write_script(PROP, f"einx.{case['op']}({case['desc']!r}) backend={backend}", spec)
        ok, out = replay.run_script(path)
        r["replay"] = path
        r["replay_out"] = out[-1500:]
        r["status"] = "violation" if ok else "not-reproduced-" + r["status"]
    r.pop("model_inputs", None)
    return r


def vacuity_twin(case):
    """A deliberately wrong reference (two equal-length output axes swapped) must be refuted (sat)."""
    import numpy as np

    arrs = harness.build_inputs(case)
    out = harness.call(case, [S.wrap(S.plain(a).copy()) for a in arrs], None)
    outs = harness.as_list(out)
    ref = harness.reference(case, arrs)
    for o, r in zip(outs, ref):
        r = np.asarray(r, dtype=object)
        for i in range(r.ndim):
            for j in range(i + 1, r.ndim):
                if r.shape[i] == r.shape[j] and r.shape[i] > 1:
                    wrong = np.swapaxes(r, i, j)
                    v, _, _ = prove.prove_equal([(S.plain(harness.wrapnd(o)), wrong)], harness.coord_assumptions(case, arrs), 10000)
                    return v
    return None


def main():
    family.SAME_NAME_BRACKETS = True
    tier, seed = runner.tier(), runner.seed()
    rep = runner.Report(PROP, "translation_validation")
    st = selftest.run(seed)
    if st["failures"]:
        rep.harness_error("primitive model self-test failed: " + "; ".join(st["failures"][:5]))
    ns = THOROUGH_N if tier == "thorough" else QUICK_N
    timeout_ms = 60000 if tier == "thorough" else 15000
    items = []
    cases_by_family = {}
    for fam in FAMILIES:
        cs = family.generate(fam, ns[fam], seed, tier)
        if fam in ("id", "reduce"):
            cs = cs + family.exhaustive(fam)
        if fam == "reduce":
            cs = cs + family.exhaustive("reduce-brackets")
        if fam == "argfind":
            cs = cs + family.exhaustive("argfind-brackets")
        if fam == "dot":
            cs = cs + family.exhaustive("dot-batch")
        cases_by_family[fam] = cs
        for c in cs:
            for b in backends_for(c):
                items.append((c, b, timeout_ms))
    t0 = time.time()
    results = runner.pmap(work, items, chunksize=8)
    status = collections.Counter()
    per_family = collections.defaultdict(collections.Counter)
    verdicts = collections.Counter()
    tags = collections.Counter()
    solver_s = 0.0
    samples = []
    nontrivial = set()
    for (case, backend, _), r in zip(items, results):
        st_ = r["status"]
        status[st_] += 1
        per_family[case["family"]][st_] += 1
        verdicts[r.get("verdict", "-")] += 1
        solver_s += r.get("solver_s", 0.0)
        if st_ == "holds":
            for t in case["tags"]:
                tags[t] += 1
            if r.get("verdict") in ("unsat", "trivial"):
                nontrivial.add((case["op"], case["desc"], str(r.get("shapes"))))
        if st_ == "violation":
            sig = {"op": case["op"], "desc": case["desc"], "backend": backend, "shapes": r["shapes"]}
            rep.violation(sig, r["replay"], f"einx.{case['op']}({case['desc']!r}, shapes={r['shapes']}, {r['kwargs']}) backend={backend}\n{r.get('replay_out', '')[-600:]}")
        elif st_.startswith("not-reproduced"):
            if case["op"] in replay.FLOAT_OPS or case["op"] in ("logaddexp", "logsumexp", "softmax", "log_softmax", "std"):
                rep.inconclusive.append({"why": "sat under uninterpreted exp/log/sqrt, not reproduced in floating point", "op": case["op"], "desc": case["desc"], "backend": backend})
            else:
                rep.harness_error(f"counterexample did not reproduce: {case['op']} {case['desc']!r} backend={backend} replay={r.get('replay')} {r.get('replay_out', '')[-300:]}")
        elif st_ == "harness-error":
            rep.harness_error(f"{r.get('error')} on {r.get('item', '')[:200]} {r.get('trace', '')[-600:]}")
        elif st_ in ("unknown", "unmodelled"):
            rep.inconclusive.append({"why": st_, "op": case["op"], "desc": case["desc"], "backend": backend, "error": r.get("error", "")[:200]})
        if len(samples) < 12 and st_ == "holds" and len(case["tags"]) >= 3:
            samples.append({"call": f"einx.{case['op']}({case['desc']!r})", "shapes": r["shapes"], "kwargs": r["kwargs"], "opts": r["opts"], "backend": backend, "verdict": r.get("verdict"), "solver_s": round(r.get("solver_s", 0), 4)})
    # vacuity twins: one per family
    twins = {}
    for fam in ["id", "elementwise", "reduce", "dot", "get_at", "preserve"]:
        v = None
        for c in cases_by_family[fam][:200]:
            try:
                v = vacuity_twin(c)
            except Exception:  # noqa: BLE001
                v = None
            if v is not None:
                break
        twins[fam] = v
        if v != "sat":
            rep.harness_error(f"vacuity twin for family {fam} came back {v!r} (expected sat)")
    holds = status["holds"]
    rep.coverage = {
        "programs": len(items),
        "disagreements_checked": status["violation"] + sum(v for k, v in status.items() if k.startswith("not-reproduced")),
        "samples": samples,
        "evaluations": len(items),
        "distinct_nontrivial": len(nontrivial),
        "rule": "one harness = (operation, description, shapes, keyword sizes, backend); distinct by that tuple; non-trivial = einx accepted the call and z3 returned unsat (or all positions syntactically identical) for all tensor contents",
        "status_counts": dict(status),
        "per_family": {k: dict(v) for k, v in per_family.items()},
        "solver_verdicts": dict(verdicts),
        "solver_time_s": round(solver_s, 3),
        "constructs_in_passing_cases": dict(tags),
        "vacuity_twins": twins,
        "model_selftest": {"checks": st["checks"], "failures": len(st["failures"])},
        "bounds": family.Bounds(tier).as_dict(),
        "exhaustive_subfamilies": "id: all 6 permutations x all one-level groupings of 3 axes on both sides, lengths (2,2,3) and (2,1,2); reductions: every non-empty bracket subset x every output permutation for all 11 reductions (3 axes); sum over every bracket pattern of 4 axes with adjacent bracketed axes written jointly or one by one",
        "backends": harness.BACKENDS,
        "functions_encoded": "whole einx pipeline executed for real (parse, solve, adapters, tracer, optimizer, compiler, generated code); see DESIGN.md §1 E1",
        "harness_wall_s": round(time.time() - t0, 2),
    }
    rep.assumptions = [
        "tensor contents are mathematical integers / reals (no int64 overflow, no NaN/inf, no rounding)",
        "get_at coordinates are in range",
        "exp/log/sqrt are uninterpreted; logsumexp/softmax use the max-shifted definition",
        "SymArray primitive models (validated against numpy at every run)",
        "axis lengths, ranks and descriptions are enumerated within the stated bounds; nothing is claimed outside them",
    ]
    rep.finish()


if __name__ == "__main__":
    main()
