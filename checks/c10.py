"""C10 — concurrent use from several threads behaves like some serial order (registry part; PARTIAL).

z3 bounded model checking of the BackendRegistry read / compute / write micro-steps with the schedule as
symbolic variables; the micro-step skeleton (which methods hold the lock, read and write `self.state`) is
re-derived from the AST of einx/_src/frontend/backend.py at every run; the abstract call semantics are
validated against the real BackendRegistryState on all small states. A satisfying schedule is replayed with
real threads gated at the read/write boundaries. See DESIGN.md §3 C10.
"""

import ast
import collections
import itertools
import json
import os
import sys
import threading
import time

from vlib import bmc, replay, runner

PROP = "C10"
NBACK = 3


def programs_for(tier):
    E, X, G, R = (lambda b: ("enter", b)), (lambda b: ("exit", b)), ("get",), (lambda b: ("register", b))
    t0s = [[E(1), G, X(1)], [E(1), X(1)], [G], [R(2), G], [E(1), E(2), X(2), X(1)]]
    t1s = [[G], [G, G], [E(2), X(2)], [E(2), G, X(2)], [R(2)], [E(1), X(1)]]
    progs = [[a, b] for a in t0s for b in t1s]
    if tier == "thorough":
        t2s = [[G], [E(2), X(2)], [R(1)]]
        progs += [[a, b, c] for a in t0s[:3] for b in t1s[:4] for c in t2s]
    return progs


def validate_model():
    """Differential execution of the abstract call semantics against the REAL BackendRegistryState on all
    abstract states with stack depth <= 3 over 3 backends. Also checks that methods work on a private copy."""
    import numpy as np
    from einx._src.frontend.backend import Backend, BackendRegistryState

    def mk(i):
        return Backend(ops={}, name=f"b{i}" if i else "numpy", priority=-i, optimizations=[], compiler=None, is_supported_tensor=(lambda t: isinstance(t, np.ndarray)) if i == 0 else (lambda t: False), get_shape=None)

    bs = [mk(i) for i in range(NBACK)]
    problems, n = [], 0
    for depth in range(0, 4):
        for stack in itertools.product(range(NBACK), repeat=depth):
            for reg in [frozenset({0}), frozenset({0, 1}), frozenset({0, 1, 2})]:
                def real_state():
                    st = BackendRegistryState()
                    import sys as _s

                    st.seen_module_names.update(_s.modules)
                    for r in sorted(reg):
                        st._register(bs[r])
                    for s in stack:
                        st._enter(bs[s])
                    return st

                def alpha(st):
                    return (tuple(bs.index(b) for b in st.use_stack), frozenset(bs.index(b) for b in st.backends))

                for call in [("get",), ("enter", 1), ("enter", 2), ("exit", 1), ("exit", 2), ("register", 2)]:
                    n += 1
                    st = real_state()
                    before = alpha(st)
                    try:
                        if call[0] == "get":
                            new, b = st.get(None, [np.zeros(1)])
                            ob = ("selected", bs.index(b))
                        elif call[0] == "enter":
                            new, ob = st.enter(bs[call[1]]), ("ok",)
                        elif call[0] == "exit":
                            new, ob = st.exit(bs[call[1]]), ("ok",)
                        else:
                            new, ob = st.register(bs[call[1]]), ("ok",)
                    except (AssertionError, IndexError):
                        new, ob = st, ("fail",)
                    want_state, want_ob = bmc.apply_concrete(call, (tuple(stack), reg))
                    if alpha(st) != before:
                        problems.append(f"{call} mutates the state it is called on: {before} -> {alpha(st)}")
                    if alpha(new) != want_state or ob != want_ob:
                        problems.append(f"{call} on {(stack, sorted(reg))}: real {(alpha(new), ob)} model {(want_state, want_ob)}")
                    if new is not st and (new.use_stack is st.use_stack or new.backends is st.backends):
                        problems.append(f"{call}: the copy shares a mutable container with the original")
    return n, problems


def validate_serial_traces(progs):
    """Model traces vs implementation: each program set is executed in one serial order (thread 0's calls,
    then thread 1's, ...) on a REAL BackendRegistry; the observed results and final state must be one of the
    model's serial outcomes."""
    import numpy as np
    from einx._src.frontend.backend import Backend, BackendRegistry

    def mk(i):
        return Backend(ops={}, name=f"b{i}" if i else "numpy", priority=-i, optimizations=[], compiler=None, is_supported_tensor=(lambda t: isinstance(t, np.ndarray)) if i == 0 else (lambda t: False), get_shape=None)

    n, bad = 0, []
    for programs in progs:
        bs = [mk(i) for i in range(NBACK)]
        reg = BackendRegistry()
        reg.state.seen_module_names.update(sys.modules)
        reg.register(bs[0])
        reg.register(bs[1])
        obs = {}
        for t, p in enumerate(programs):
            for i, call in enumerate(p):
                try:
                    if call[0] == "get":
                        obs[(t, i)] = ("selected", bs.index(reg.get(None, [np.zeros(1)])))
                    elif call[0] == "enter":
                        reg.enter(bs[call[1]])
                        obs[(t, i)] = ("ok",)
                    elif call[0] == "exit":
                        reg.exit(bs[call[1]])
                        obs[(t, i)] = ("ok",)
                    else:
                        reg.register(bs[call[1]])
                        obs[(t, i)] = ("ok",)
                except (AssertionError, IndexError):
                    obs[(t, i)] = ("fail",)
        final = (tuple(bs.index(b) for b in reg.state.use_stack), frozenset(bs.index(b) for b in reg.state.backends))
        n += 1
        if (tuple(sorted(obs.items())), final) not in bmc.serial_outcomes(programs, ((), frozenset({0, 1}))):
            bad.append(f"{programs}: real serial run {obs} {final} is not among the model's serial outcomes")
    return n, bad


def scan_shared_state():
    """Module-level mutable objects in einx/_src (inventory of shared state outside the registry)."""
    root = "/repo/einx/_src"
    found = []
    for d, _, files in os.walk(root):
        for fn in files:
            if not fn.endswith(".py"):
                continue
            p = os.path.join(d, fn)
            try:
                tree = ast.parse(open(p).read())
            except SyntaxError:
                continue
            for node in tree.body:
                if isinstance(node, ast.Assign) and isinstance(node.value, (ast.Dict, ast.List, ast.Set, ast.Call)):
                    names = [t.id for t in node.targets if isinstance(t, ast.Name)]
                    if not names:
                        continue
                    v = node.value
                    kind = type(v).__name__
                    if isinstance(v, ast.Call):
                        f = ast.unparse(v.func)
                        if f not in ("threading.local", "BackendRegistry", "dict", "list", "set", "defaultdict", "threading.Lock", "threading.RLock"):
                            continue
                        kind = f
                    elif isinstance(v, (ast.Dict, ast.List, ast.Set)) and all(n.isupper() or n.startswith("_") and n[1:].islower() for n in names) and False:
                        continue
                    found.append({"file": os.path.relpath(p, "/repo"), "name": names[0], "kind": kind})
    return found


REPLAY = r'''#!/venv/bin/python
"""Replay (C10): a z3 schedule executed on the REAL BackendRegistry with real threads, gated at the
read (A) / write (B) boundaries of every registry call."""
import json, sys, threading, time
sys.path.insert(0, "/repo")
import numpy as np
import einx
import einx._src.frontend.backend as be
SPEC = json.loads(r"""{spec}""")
programs, schedule, serial = SPEC["programs"], SPEC["schedule"], SPEC["serial"]
reg = be.registry
reg.get(None, [np.zeros(1)])  # initialise lazily registered numpy backends
_fresh = [0]
def fresh_tensor():
    """Every get() under test is a FIRST-USE lookup: a new ndarray subclass is a new tensor-type tuple."""
    _fresh[0] += 1
    return np.zeros(1).view(type("T%d" % _fresh[0], (np.ndarray,), {{}}))
ids = {{0: reg.get("numpy"), 1: reg.get("numpy.numpylike"), 2: reg.get("numpy.einsum")}}
extra = be.Backend(ops={{}}, name="verif-extra", priority=-9, optimizations=[], compiler=None, is_supported_tensor=lambda t: False, get_shape=None)
def ident(b):
    for k, v in ids.items():
        if v is b: return k
    return 9
cv = threading.Condition()
waiting, granted, done = {{}}, set(), set()
tls = threading.local()
def gate(ph):
    key = (tls.t, ph, tls.ci)
    with cv:
        waiting[tls.t] = key
        cv.notify_all()
        ok = cv.wait_for(lambda: key in granted, timeout=10)
        if not ok: raise TimeoutError("gate %r never granted" % (key,))
        granted.discard(key); waiting.pop(tls.t, None)
orig_reg = {{n: getattr(be.BackendRegistry, n) for n in ("get", "enter", "exit", "register")}}
orig_st = {{n: getattr(be.BackendRegistryState, n) for n in ("get", "enter", "exit", "register")}}
def wrap_reg(n):
    def f(self, *a, **k):
        if getattr(tls, "t", None) is None: return orig_reg[n](self, *a, **k)
        gate("A")
        return orig_reg[n](self, *a, **k)
    return f
def wrap_st(n):
    def f(self, *a, **k):
        try:
            r = orig_st[n](self, *a, **k)
        except BaseException:
            if getattr(tls, "t", None) is not None: gate("B")  # a failing call still takes its second step
            raise
        if getattr(tls, "t", None) is not None: gate("B")
        return r
    return f
for n in orig_reg: setattr(be.BackendRegistry, n, wrap_reg(n)); setattr(be.BackendRegistryState, n, wrap_st(n))
obs = {{}}
def run(t):
    tls.t = t
    for ci, call in enumerate(programs[t]):
        tls.ci = ci
        try:
            if call[0] == "get": obs["%d.%d" % (t, ci)] = ["selected", ident(reg.get(None, [fresh_tensor()]))]
            elif call[0] == "enter": reg.enter(ids[call[1]]); obs["%d.%d" % (t, ci)] = ["ok"]
            elif call[0] == "exit": reg.exit(ids[call[1]]); obs["%d.%d" % (t, ci)] = ["ok"]
            else: reg.register(extra); obs["%d.%d" % (t, ci)] = ["ok"]
        except (AssertionError, IndexError) as e:
            obs["%d.%d" % (t, ci)] = ["fail", type(e).__name__]
        except TimeoutError as e:
            obs["%d.%d" % (t, ci)] = ["timeout", str(e)]
    with cv:
        done.add(t); cv.notify_all()
threads = [threading.Thread(target=run, args=(t,), daemon=True) for t in range(len(programs))]
for th in threads: th.start()
stuck = None
for (t, ph, ci) in schedule:
    key = (t, ph, ci)
    with cv:
        if not cv.wait_for(lambda: waiting.get(t) == key or t in done, timeout=10) or t in done:
            stuck = key; break
        granted.add(key); cv.notify_all()
        # wait until the thread has consumed the grant and reached its next gate (or finished)
        cv.wait_for(lambda: key not in granted and (t in waiting or t in done), timeout=10)
for th in threads: th.join(timeout=5)
final = [ident(b) for b in reg.state.use_stack]
registered_extra = any(b is extra for b in reg.state.backends) and reg.state.name_to_backend.get("verif-extra") is extra
print("programs:", programs); print("schedule:", schedule)
print("observations:", obs); print("final with-stack:", final, "extra backend still registered:", registered_extra)
if stuck is not None:
    print("NOT-REPRODUCED: the real code could not follow the schedule at", stuck); sys.exit(0)
def matches(s):
    so, sf, sreg = s
    if list(sf) != final: return False
    if bool(sreg) != registered_extra: return False
    for k, v in so.items():
        o = obs.get(k)
        if o is None: return False
        if v[0] == "selected" and o != ["selected", v[1]]: return False
        if v[0] == "fail" and o[0] != "fail": return False
        if v[0] == "ok" and o[0] != "ok": return False
    return True
if not any(matches(s) for s in serial):
    print("REPRODUCED: no sequential order of the same calls gives these results / this final state"); sys.exit(1)
print("NOT-REPRODUCED: the real run is equivalent to a serial order"); sys.exit(0)
'''


def write_replay(programs, init, result):
    import hashlib

    outs = bmc.serial_outcomes(programs, init)
    reg_ids = {c[1] for p in programs for c in p if c[0] == "register"}
    serial = [[{f"{t}.{i}": list(ob) for (t, i), ob in obs}, list(st[0]), bool(reg_ids and reg_ids <= set(st[1]))] for obs, st in outs]
    spec = {"programs": programs, "schedule": result["schedule"], "serial": serial}
    text = json.dumps(runner.jsonable(spec))
    os.makedirs(os.path.join(runner.REPLAY_DIR, PROP), exist_ok=True)
    path = os.path.join(runner.REPLAY_DIR, PROP, "schedule_" + hashlib.sha1(text.encode()).hexdigest()[:12] + ".py")
    with open(path, "w") as f:
        f.write(REPLAY.format(spec=text))
    return path


def context_stack_dynamic():
    """Observed on the real module with two real threads: does thread B see what thread A pushed?"""
    import einx._src.tracer.graph as g

    marker = object()
    entered, done = threading.Event(), threading.Event()
    seen = {}

    def a():
        with g.depend_on(marker):
            entered.set()
            done.wait(10)

    def b():
        entered.wait(10)
        seen["b"] = any(x is marker for x in g.get_additional_dependencies())
        done.set()

    ta, tb = threading.Thread(target=a), threading.Thread(target=b)
    ta.start(), tb.start()
    ta.join(20), tb.join(20)
    return {"shared_between_threads": bool(seen.get("b"))}


CTX_REPLAY = r'''#!/venv/bin/python
"""Replay (C10): two real threads run one first-time einx call each; their push / first read / pop on the
tracing context stack (tracer.graph.depend_on) are gated to follow the schedule found by z3."""
import json, sys, threading
sys.path.insert(0, "/repo")
import numpy as np
import einx
import einx._src.tracer.graph as g
SCHEDULE = {schedule!r}
events, count = [], {{0: 0, 1: 0}}
for t in SCHEDULE:
    events.append((t, ["push", "read", "pop"][count[t]])); count[t] += 1
done = [threading.Event() for _ in events]
tls = threading.local()
def gate(kind):
    t = getattr(tls, "tid", None)
    if t is None or (t, kind) not in events: return None
    i = events.index((t, kind))
    if done[i].is_set(): return None
    for e in done[:i]: e.wait(15)
    return i
orig_enter, orig_exit, orig_read = g.DependOn.__enter__, g.DependOn.__exit__, g.get_additional_dependencies
def enter(self):
    i = gate("push"); r = orig_enter(self)
    if i is not None: done[i].set()
    return r
def exit_(self, *a):
    j = gate("read")
    if j is not None: done[j].set()
    i = gate("pop"); r = orig_exit(self, *a)
    if i is not None: done[i].set()
    return r
def read():
    i = gate("read"); r = orig_read()
    if i is not None: done[i].set()
    return r
g.DependOn.__enter__, g.DependOn.__exit__, g.get_additional_dependencies = enter, exit_, read
x = np.arange(6.0).reshape(2, 3)
calls = [lambda: einx.sum("a [b] -> a", x), lambda: einx.multiply("a b, b -> b a", x, x[0])]
expected = [np.sum(x, axis=1).tolist(), (x * x[0]).T.tolist()]
out = {{}}
def run(t):
    tls.tid = t
    try: out[t] = np.asarray(calls[t]()).tolist()
    except Exception as e: out[t] = "raised %s: %s" % (type(e).__name__, str(e).splitlines()[0][:120] if str(e) else "")
    for i, (tt, _) in enumerate(events):
        if tt == t: done[i].set()
ths = [threading.Thread(target=run, args=(t,)) for t in (0, 1)]
[th.start() for th in ths]; [th.join(60) for th in ths]
print("schedule (thread ids of push/read/pop steps):", SCHEDULE)
for t in (0, 1): print("thread %d ->" % t, out.get(t), " serial:", expected[t])
if any(out.get(t) != expected[t] for t in (0, 1)):
    print("REPRODUCED: under this interleaving a call's outcome differs from every serial order"); sys.exit(1)
print("NOT-REPRODUCED"); sys.exit(0)
'''


def write_ctx_replay(schedule):
    os.makedirs(os.path.join(runner.REPLAY_DIR, PROP), exist_ok=True)
    path = os.path.join(runner.REPLAY_DIR, PROP, "context_stack_" + "".join(map(str, schedule)) + ".py")
    with open(path, "w") as f:
        f.write(CTX_REPLAY.format(schedule=list(schedule)))
    return path


MUTATORS = {"clear", "update", "append", "pop", "add", "setdefault", "extend", "insert", "remove", "discard", "popitem", "sort", "reverse"}


def scan_unsynchronised_mutables(root="/repo/einx/_src"):
    """From the AST of every module: objects that outlive a call and are MUTATED inside a function outside any
    `with <lock>` block - module-level dict/list/set objects, mutable default arguments, and `global` rebinding.
    (The registry object and threading.local instances are handled by their own models.)"""
    found = []
    for d, _, files in os.walk(root):
        for fn in sorted(files):
            if not fn.endswith(".py"):
                continue
            p = os.path.join(d, fn)
            try:
                tree = ast.parse(open(p).read())
            except SyntaxError:
                continue
            objs = {}
            for node in tree.body:
                if isinstance(node, ast.Assign) and len(node.targets) == 1 and isinstance(node.targets[0], ast.Name):
                    v = node.value
                    if isinstance(v, (ast.Dict, ast.List, ast.Set)) or (isinstance(v, ast.Call) and ast.unparse(v.func) in ("dict", "list", "set", "defaultdict", "collections.defaultdict", "OrderedDict", "collections.OrderedDict")):
                        objs[node.targets[0].id] = "module-level " + type(v).__name__
            # objects created in an enclosing function (decorator factories: one object per decorated function, shared by
            # all its calls) and mutated in the inner function
            for outer in ast.walk(tree):
                if not isinstance(outer, (ast.FunctionDef, ast.AsyncFunctionDef)):
                    continue
                created = {}
                for st in ast.walk(outer):
                    if isinstance(st, ast.Assign) and len(st.targets) == 1 and isinstance(st.targets[0], ast.Name) and isinstance(st.value, (ast.Call, ast.Dict, ast.List, ast.Set)):
                        if not any(st in ast.walk(inner_) for inner_ in ast.walk(outer) if inner_ is not outer and isinstance(inner_, (ast.FunctionDef, ast.AsyncFunctionDef))):
                            created[st.targets[0].id] = st.lineno
                if not created:
                    continue
                returned = {r.value.id for r in ast.walk(outer) if isinstance(r, ast.Return) and isinstance(r.value, ast.Name)}
                for inner in ast.walk(outer):
                    if inner is outer or not isinstance(inner, (ast.FunctionDef, ast.AsyncFunctionDef)):
                        continue
                    if inner.name not in returned:
                        continue  # a helper that lives only during one call of the enclosing function
                    locked_i = set()
                    for w in ast.walk(inner):
                        if isinstance(w, ast.With) and any("lock" in ast.unparse(i_.context_expr).lower() for i_ in w.items):
                            locked_i |= {id(x) for x in ast.walk(w)}
                    for name in created:
                        muts, refs = [], set()
                        for n in ast.walk(inner):
                            if isinstance(n, ast.Name) and n.id == name:
                                refs.add(n.lineno)
                            tgt = None
                            if isinstance(n, ast.Attribute) and isinstance(n.ctx, (ast.Store, ast.Del)) and isinstance(n.value, ast.Name):
                                tgt = n.value.id
                            elif isinstance(n, ast.Subscript) and isinstance(n.ctx, (ast.Store, ast.Del)) and isinstance(n.value, ast.Name):
                                tgt = n.value.id
                            elif isinstance(n, ast.AugAssign) and isinstance(n.target, ast.Subscript) and isinstance(n.target.value, ast.Name):
                                tgt = n.target.value.id
                            elif isinstance(n, ast.Call) and isinstance(n.func, ast.Attribute) and n.func.attr in MUTATORS and isinstance(n.func.value, ast.Name):
                                tgt = n.func.value.id
                            if tgt == name and id(n) not in locked_i:
                                muts.append(n.lineno)
                        if muts and not any(x["file"] == os.path.relpath(p, "/repo") and x["function"] == inner.name and x["object"] == name for x in found):
                            found.append({"file": os.path.relpath(p, "/repo"), "function": inner.name, "object": name, "kind": f"object created in {outer.name}() and shared by all calls of the function it returns", "line": min(muts), "lines": sorted(refs), "closure": True})
            for f in ast.walk(tree):
                if not isinstance(f, (ast.FunctionDef, ast.AsyncFunctionDef)):
                    continue
                local = dict(objs)
                args = f.args
                pos = args.posonlyargs + args.args
                for a, dflt in list(zip(pos[len(pos) - len(args.defaults) :], args.defaults)) + [(a, dv) for a, dv in zip(args.kwonlyargs, args.kw_defaults) if dv is not None]:
                    if isinstance(dflt, (ast.Dict, ast.List, ast.Set)):
                        local[a.arg] = "mutable default argument"
                aliases = {}
                locked = set()
                for w in ast.walk(f):
                    if isinstance(w, ast.With) and any("lock" in ast.unparse(i.context_expr).lower() for i in w.items):
                        locked |= {id(x) for x in ast.walk(w)}
                    if isinstance(w, ast.Assign) and len(w.targets) == 1 and isinstance(w.targets[0], ast.Name) and isinstance(w.value, ast.Name) and w.value.id in local:
                        aliases[w.targets[0].id] = w.value.id
                for n in ast.walk(f):
                    name = None
                    if isinstance(n, ast.Call) and isinstance(n.func, ast.Attribute) and n.func.attr in MUTATORS and isinstance(n.func.value, ast.Name):
                        name = n.func.value.id
                    elif isinstance(n, ast.Subscript) and isinstance(n.ctx, (ast.Store, ast.Del)) and isinstance(n.value, ast.Name):
                        name = n.value.id
                    elif isinstance(n, ast.AugAssign) and isinstance(n.target, ast.Name):
                        name = n.target.id
                    elif isinstance(n, ast.Call) and isinstance(n.func, ast.Name) and n.func.id == "exec":
                        # exec(code, namespace): the namespace dict is written by the executed code
                        for a in n.args[1:]:
                            if isinstance(a, ast.Name) and aliases.get(a.id, a.id) in local:
                                name = a.id
                    elif isinstance(n, ast.Global):
                        for g in n.names:
                            writes = [w for w in ast.walk(f) if isinstance(w, (ast.Assign, ast.AugAssign)) and any(isinstance(t, ast.Name) and t.id == g for t in (w.targets if isinstance(w, ast.Assign) else [w.target]))]
                            if any(id(w) not in locked for w in writes):
                                found.append({"file": os.path.relpath(p, "/repo"), "function": f.name, "object": g, "kind": "global rebinding", "line": n.lineno})
                        continue
                    name = aliases.get(name, name)
                    if name in local and id(n) not in locked:
                        if not any(x["file"] == os.path.relpath(p, "/repo") and x["function"] == f.name and x["object"] == name for x in found):
                            found.append({"file": os.path.relpath(p, "/repo"), "function": f.name, "object": name, "kind": local[name], "line": n.lineno})
    return found


def scan_live_dict_iterations(root="/repo/einx/_src"):
    """Iteration over a process-wide dict that OTHER code mutates at any time (sys.modules: every `import` in any
    thread adds to it) without taking a snapshot first (list(...), tuple(...), sorted(...), .copy())."""
    found = []
    for d, _, files in os.walk(root):
        for fn in sorted(files):
            if not fn.endswith(".py"):
                continue
            p = os.path.join(d, fn)
            try:
                tree = ast.parse(open(p).read())
            except SyntaxError:
                continue
            for f in ast.walk(tree):
                if not isinstance(f, (ast.FunctionDef, ast.AsyncFunctionDef)):
                    continue
                for n in ast.walk(f):
                    iters = []
                    if isinstance(n, (ast.For, ast.AsyncFor)):
                        iters.append(n.iter)
                    elif isinstance(n, (ast.ListComp, ast.SetComp, ast.DictComp, ast.GeneratorExp)):
                        iters.extend(g.iter for g in n.generators)
                    for it in iters:
                        src = ast.unparse(it)
                        if src in ("sys.modules", "sys.modules.keys()", "sys.modules.items()", "sys.modules.values()"):
                            if not any(x["file"] == os.path.relpath(p, "/repo") and x["function"] == f.name for x in found):
                                found.append({"file": os.path.relpath(p, "/repo"), "function": f.name, "object": "sys.modules", "kind": "iteration over a live process-wide dict", "line": it.lineno})
    return found


ITER_REPLAY = r'''#!/venv/bin/python
"""Replay (C10): thread A is paused while {function}() ({file}) iterates over sys.modules; thread B imports modules
that were not imported yet (any einx call or user code may do that); A resumes."""
import sys, threading
sys.path.insert(0, "/repo")
import numpy as np
import einx
FILE, FUNC = {file!r}, {function!r}
a_in, b_done = threading.Event(), threading.Event()
def tracer(frame, event, arg):
    co = frame.f_code
    if event == "call" and co.co_filename.endswith(FILE) and (co.co_name in ("<genexpr>", "<listcomp>") or co.co_name == FUNC):
        return local
    return tracer if event == "call" else None
import collections
hits = collections.Counter()
LINES = {{i for i, l in enumerate(open("/repo/" + FILE).read().splitlines(), 1) if "sys.modules" in l}}
def local(frame, event, arg):
    if event == "line" and frame.f_lineno in LINES and not a_in.is_set():
        hits[(frame.f_code.co_name, frame.f_lineno)] += 1
        if hits[(frame.f_code.co_name, frame.f_lineno)] >= 3:  # the same line again and again: inside the iteration
            a_in.set(); b_done.wait(20)
    return local
out = {{}}
class Unknown:  # a tensor type no backend knows yet: the lookup has to scan for newly imported modules
    pass
def run_a():
    sys.settrace(tracer)
    try:
        einx.add("a, a -> a", np.ones(2), np.ones(2), backend="no-such-backend")
        out["A"] = "returned"
    except Exception as e:
        out["A"] = "raised " + type(e).__name__ + ": " + str(e).splitlines()[0][:80]
    finally:
        sys.settrace(None); a_in.set()
def run_b():
    a_in.wait(20)
    import importlib
    for name in ("wave", "sndhdr", "xdrlib", "mailbox", "imaplib", "nntplib", "poplib", "smtplib", "telnetlib", "ftplib", "cgi", "chunk", "aifc", "sunau", "pipes", "uu", "colorsys", "fractions", "statistics", "tabnanny", "symtable", "pyclbr", "filecmp", "sched", "cmd", "shelve", "dbm", "netrc", "plistlib", "zipapp"):
        if name not in sys.modules:
            try: importlib.import_module(name)
            except Exception: pass
    b_done.set()
try:
    einx.add("a, a -> a", np.ones(2), np.ones(2), backend="no-such-backend")
except Exception as e:
    serial = "raised " + type(e).__name__ + ": " + str(e).splitlines()[0][:80]
ta, tb = threading.Thread(target=run_a), threading.Thread(target=run_b)
ta.start(); tb.start(); ta.join(60); tb.join(60)
print("serial outcome      :", serial)
print("interleaved outcome :", out.get("A"))
if out.get("A") != serial:
    print("REPRODUCED: a lookup that overlaps with an import in another thread fails differently from any serial order"); sys.exit(1)
print("NOT-REPRODUCED"); sys.exit(0)
'''


def write_iter_replay(cand):
    os.makedirs(os.path.join(runner.REPLAY_DIR, PROP), exist_ok=True)
    path = os.path.join(runner.REPLAY_DIR, PROP, f"live_iteration_{os.path.basename(cand['file'])[:-3]}_{cand['function']}.py")
    with open(path, "w") as f:
        f.write(ITER_REPLAY.format(file=cand["file"], function=cand["function"]))
    return path


TABLE_REPLAY = r'''#!/venv/bin/python
"""Replay (C10): thread A is paused inside {function}() ({file}) right after it touched the shared object
`{obj}`; thread B then runs a whole first-time einx call; A resumes. Every pair of calls of a small pool is tried
in a fresh interpreter; outcomes are compared with numpy (= what every serial order gives)."""
import json, subprocess, sys
FILE, FUNC, LINES, CLOSURE = {file!r}, {function!r}, {lines!r}, {closure!r}
CHILD = r"""
import json, sys, threading
sys.path.insert(0, "/repo")
import numpy as np
import einx
FILE, FUNC, LINE, I, J, WARM = sys.argv[1], sys.argv[2], int(sys.argv[3]), int(sys.argv[4]), int(sys.argv[5]), sys.argv[6] == "warm"
X, Y, Z = np.arange(6.0).reshape(2, 3) + 1, np.arange(12.0).reshape(3, 4) - 3, np.arange(6.0).reshape(3, 2) * 2 - 1
POOL = [
    (lambda: einx.dot("a b, b c -> a c", X, Y), X @ Y),
    (lambda: einx.dot("c b, b a -> c a", X, Y), X @ Y),
    (lambda: einx.dot("b a, b c -> a c", Z, Y), Z.T @ Y),
    (lambda: einx.dot("a b, b -> a", X, Y[:, 0], backend="numpy.einsum"), X @ Y[:, 0]),
    (lambda: einx.sum("b [a] -> b", X), X.sum(1)),
    (lambda: einx.add("b a, a -> a b", X, X[0]), (X + X[0]).T),
    (lambda: einx.id("b a -> a b", X), X.T),
    (lambda: einx.multiply("c a, a b -> b c a", X, Y, backend="numpy.einsum"), np.einsum("ca,ab->bca", X, Y)),
    (lambda: einx.sum("[a] b -> b", X), X.sum(0)),
    (lambda: einx.add("b a, a -> b a", X, X[0]), X + X[0]),
    (lambda: einx.id("b a -> (a b)", X), X.T.reshape(-1)),
]
if WARM:
    POOL[I][0]()  # the paused call repeats the signature of this op's previous call
a_in, b_done = threading.Event(), threading.Event()
def tracer(frame, event, arg):
    if event == "call":
        co = frame.f_code
        if co.co_name == FUNC and co.co_filename.endswith(FILE):
            return local
        return tracer
    return None
reached = []
def local(frame, event, arg):
    if event == "line" and frame.f_lineno > LINE and not a_in.is_set():
        reached.append(frame.f_lineno)
        a_in.set(); b_done.wait(20)
    return local
out = {{}}
def run_a():
    sys.settrace(tracer)
    try: out["A"] = np.asarray(POOL[I][0]()).tolist()
    except Exception as e: out["A"] = "raised " + type(e).__name__
    finally: sys.settrace(None); a_in.set()
def run_b():
    a_in.wait(20)
    try: out["B"] = np.asarray(POOL[J][0]()).tolist()
    except Exception as e: out["B"] = "raised " + type(e).__name__
    finally: b_done.set()
ta, tb = threading.Thread(target=run_a), threading.Thread(target=run_b)
ta.start(); tb.start(); ta.join(60); tb.join(60)
again = {{}}
for k, idx in (("A", I), ("B", J)):
    try: again[k] = np.asarray(POOL[idx][0]()).tolist()
    except Exception as e: again[k] = "raised " + type(e).__name__
exp = {{"A": POOL[I][1].tolist(), "B": POOL[J][1].tolist()}}
print("RESULT " + json.dumps({{"ok": out == exp and again == exp, "out": out, "again": again, "expected": exp, "reached": bool(reached)}}))
"""
bad, tried, never = [], 0, 0
n = 8
SAME_OP = [(4, 8), (8, 4), (5, 9), (9, 5), (6, 10), (10, 6), (0, 1), (1, 0), (0, 2), (2, 0)]  # two signatures of one einx operation
if CLOSURE:
    plan = [(line, mode, i, j) for line in LINES for mode in ("warm", "cold") for i, j in SAME_OP]
else:
    plan = [(LINES[0], "cold", i, j) for i in range(n) for j in range(n) if i != j]
for line_no, mode, i, j in plan:
    tried += 1
    p = subprocess.run(["/venv/bin/python", "-c", CHILD, FILE, FUNC, str(line_no), str(i), str(j), mode], capture_output=True, text=True, timeout=180)
    line = [l for l in p.stdout.splitlines() if l.startswith("RESULT ")]
    if not line:
        print("pair", i, j, "child failed:", p.stderr[-300:]); continue
    r = json.loads(line[0][7:])
    never = (never + 1) if not r.get("reached") else -10**6
    if never >= 4:
        print("the function is not reached by the pool calls (its code path is inactive in this configuration)"); break
    if not r["ok"]:
        bad.append((i, j, r))
        if len(bad) <= 3:
            print("pair (A=call %d %s, paused in %s after line %d, B=call %d):" % (i, mode, FUNC, line_no, j)); print("  during :", r["out"]); print("  repeat :", r["again"]); print("  serial :", r["expected"])
if bad:
    print("REPRODUCED: %d of %d interleavings give outcomes that no serial order gives" % (len(bad), tried)); sys.exit(1)
print("NOT-REPRODUCED"); sys.exit(0)
'''


def write_table_replay(cand):
    os.makedirs(os.path.join(runner.REPLAY_DIR, PROP), exist_ok=True)
    path = os.path.join(runner.REPLAY_DIR, PROP, f"shared_{os.path.basename(cand['file'])[:-3]}_{cand['function']}_{cand['object']}.py")
    with open(path, "w") as f:
        f.write(TABLE_REPLAY.format(file=cand["file"], function=cand["function"], obj=cand["object"], lines=(cand.get("lines") or [cand["line"]]), closure=bool(cand.get("closure"))))
    return path


def work(item):
    programs, skeleton, timeout_ms = item
    init = ((), frozenset({0, 1}))
    v, result, stats = bmc.check(programs, init, skeleton, NBACK, timeout_ms)
    res = {"programs": programs, "verdict": v, "stats": stats}
    if v == "sat":
        res["result"] = result
        path = write_replay(programs, init, result)
        ok, out = replay.run_script(path, timeout=90)
        res["replay"], res["replay_out"], res["reproduced"] = path, out[-1500:], ok
    return res


def main():
    tier, seed = runner.tier(), runner.seed()
    rep = runner.Report(PROP, "model_checking")
    skeleton = bmc.extract_skeleton()
    for m in ("get", "enter", "exit", "register"):
        if m not in skeleton or not skeleton[m]["reads_state"] or not skeleton[m]["writes_state"]:
            rep.harness_error(f"skeleton extraction: BackendRegistry.{m} does not look like a read-modify-write of self.state: {skeleton.get(m)}")
    n_val, problems = validate_model()
    if problems:
        rep.harness_error("abstract call semantics disagree with the real BackendRegistryState: " + "; ".join(problems[:4]))
    progs = programs_for(tier)
    n_serial, serial_bad = validate_serial_traces(progs)
    if serial_bad:
        rep.harness_error("model serial outcomes disagree with the real registry: " + "; ".join(serial_bad[:3]))
    timeout_ms = 120000 if tier == "thorough" else 30000
    results = runner.pmap(work, [(p, skeleton, timeout_ms) for p in progs], chunksize=1)
    verdicts = collections.Counter()
    states = transitions = traces = 0
    samples = []
    solver_s = 0.0
    for p, r in zip(progs, results):
        if r.get("status") == "harness-error":
            rep.harness_error(f"{r.get('error')} {r.get('trace', '')[-600:]}")
            continue
        verdicts[r["verdict"]] += 1
        solver_s += r["stats"]["solver_s"]
        transitions += r["stats"]["steps"]
        states += r["stats"]["steps"] + 1
        if r["verdict"] == "sat":
            traces += 1
            lockinfo = {m: skeleton[m]["locked"] for m in ("get", "enter", "exit", "register")}
            sig = {"unlocked_methods": sorted(m for m, l in lockinfo.items() if not l), "programs": json.dumps(p)}
            text = f"programs {p}: schedule {r['result']['schedule']} is not equivalent to any serial order (observations {r['result']['observations']})\n{r.get('replay_out', '')[-700:]}"
            if r["reproduced"]:
                rep.violation(sig, r["replay"], text)
            else:
                rep.harness_error("schedule did not reproduce on the real registry: " + text[-900:])
        elif r["verdict"] == "unknown":
            rep.inconclusive.append({"why": "z3 unknown", "programs": p})
        if len(samples) < 6:
            samples.append({"programs": p, "verdict": r["verdict"], "steps": r["stats"]["steps"], "serial_outcomes": r["stats"]["serial_orders_outcomes"], "solver_s": round(r["stats"]["solver_s"], 3), "schedule": (r.get("result") or {}).get("schedule")})
    # vacuity twin: with the schedule restricted to whole calls the same query must be unsat
    tw, _, _ = bmc.check([[("enter", 1), ("get",), ("exit", 1)], [("get",), ("get",)]], ((), frozenset({0, 1})), skeleton, NBACK, 30000, force_serial=True)
    if tw != "unsat":
        rep.harness_error(f"vacuity twin (serial schedules only) came back {tw!r}, expected unsat")
    # second twin: a skeleton with no lock at all must yield a non-linearizable schedule (the encoding can see races)
    nolock = {m: dict(v, locked=False) for m, v in skeleton.items()}
    tw2, _, _ = bmc.check([[("enter", 1), ("exit", 1)], [("enter", 2), ("exit", 2)]], ((), frozenset({0, 1})), nolock, NBACK, 30000)
    if tw2 != "sat":
        rep.harness_error(f"vacuity twin (all locks removed) came back {tw2!r}, expected sat")
    # tracing context stack: classification from the AST, validated on the real module, then model checked
    ctx = bmc.extract_context_stacks()
    ctx_dyn = context_stack_dynamic()
    ctx_results = {}
    if "_dependon.stack" not in ctx:
        rep.harness_error(f"context-stack extraction found no stack attribute on tracer.graph._dependon: {ctx}")
    for key, info in ctx.items():
        per_thread = info["per_thread"]
        if key == "_dependon.stack" and per_thread == ctx_dyn["shared_between_threads"]:
            # the real module is the authority for the model (as for the registry semantics above)
            info["static_classification_overridden_by_observation"] = True
            per_thread = not ctx_dyn["shared_between_threads"]
        v, schedule, stats = bmc.context_stack_check(per_thread, timeout_ms)
        ctx_results[key] = {"per_thread": per_thread, "verdict": v, "schedule": schedule, "solver_s": round(stats["solver_s"], 4)}
        solver_s += stats["solver_s"]
        if v == "sat":
            path = write_ctx_replay(schedule)
            ok, out = replay.run_script(path, timeout=120)
            text = f"tracing context stack {key} is one object for all threads ({info}); schedule {schedule}: a thread's trace picks up another thread's entries\n{out[-700:]}"
            if ok:
                rep.violation({"kind": "context-stack-shared", "stack": key}, path, text)
            else:
                rep.harness_error("context-stack schedule did not reproduce with real threads: " + text[-900:])
        elif v != "unsat":
            rep.inconclusive.append({"why": "z3 " + v, "stack": key})
    tw3, _, _ = bmc.context_stack_check(False, 30000)
    if tw3 != "sat":
        rep.harness_error(f"vacuity twin (context stack modelled as shared) came back {tw3!r}, expected sat")
    # objects that outlive a call and are mutated inside a function without a lock: same two-call model (write own
    # entries / read them back), replayed through the public API with thread A paused right after its first write
    unsync = scan_unsynchronised_mutables()
    unsync_results = []
    for cand in unsync:
        v, schedule, stats = bmc.context_stack_check(False, timeout_ms)
        solver_s += stats["solver_s"]
        entry = dict(cand, verdict=v, schedule=schedule)
        if v == "sat":
            path = write_table_replay(cand)
            ok, out = replay.run_script(path, timeout=1500)
            entry["replayed"] = ok
            if ok:
                rep.violation({"kind": "unsynchronised-shared-object", "file": cand["file"], "function": cand["function"], "object": cand["object"]}, path, f"{cand['kind']} `{cand['object']}` is mutated in {cand['function']}() ({cand['file']}:{cand['line']}) without a lock; model schedule {schedule}\n{out[-900:]}")
            else:
                rep.inconclusive.append({"why": "shared object mutated without a lock, but no pair of pool calls shows a non-serial outcome", "object": cand})
        unsync_results.append(entry)
    # iteration over sys.modules without a snapshot: reader (iterate) and writer (import in another thread) on one dict
    live_results = []
    for cand in scan_live_dict_iterations():
        v, schedule, stats = bmc.context_stack_check(False, timeout_ms)
        solver_s += stats["solver_s"]
        entry = dict(cand, verdict=v, schedule=schedule)
        if v == "sat":
            path = write_iter_replay(cand)
            ok, out = replay.run_script(path, timeout=300)
            entry["replayed"] = ok
            if ok:
                rep.violation({"kind": "iteration-over-live-dict", "file": cand["file"], "function": cand["function"]}, path, f"{cand['function']}() ({cand['file']}:{cand['line']}) iterates over sys.modules while other threads may import\n{out[-700:]}")
            else:
                rep.inconclusive.append({"why": "iteration over sys.modules without snapshot; the gated replay did not show a non-serial outcome", "where": cand})
        live_results.append(entry)
    shared = scan_shared_state()
    known_inventory = {"registry", "_thread_local", "_dependon"}
    uncovered = [s for s in shared if s["name"] not in known_inventory and s["kind"] not in ("threading.local", "threading.Lock", "threading.RLock")]
    rep.coverage = {
        "states": max(states, 1),
        "transitions": max(transitions, 1),
        "traces_validated_against_impl": traces + n_serial,
        "serial_model_traces_run_on_real_registry": n_serial,
        "violating_schedules_replayed_with_real_threads": traces,
        "samples": samples,
        "evaluations": len(progs),
        "distinct_nontrivial": sum(v for k, v in verdicts.items() if k in ("unsat", "sat")),
        "verdicts": dict(verdicts),
        "solver_time_s": round(solver_s, 3),
        "skeleton_from_ast": {m: {k: v for k, v in skeleton[m].items()} for m in skeleton},
        "model_validation": {"real_vs_model_evaluations": n_val, "disagreements": len(problems)},
        "vacuity_twins": {"serial_only": tw, "no_locks": tw2, "context_stack_shared": tw3},
        "objects_mutated_in_functions_without_lock": unsync_results,
        "iterations_over_live_process_wide_dicts": live_results,
        "tracing_context_stacks": {"from_ast": ctx, "observed_on_real_module": ctx_dyn, "model_checked": ctx_results},
        "module_level_mutable_objects": shared,
        "uncovered_shared_state": uncovered,
        "bounds": {"threads": 2 if tier == "quick" else 3, "calls_per_thread": "<= 4", "with_stack_depth": bmc.MAX_DEPTH, "micro_steps": "A=(acquire;read) B=(write;release) per call", "thread_programs": len(progs)},
    }
    rep.assumptions = [
        "the BackendRegistry and the tracing context stack (tracer.graph.depend_on) are decided; functools.cache is assumed atomic per call (CPython); device/namespace stacks of the torch/array-api adapters are outside (frameworks not installed)",
        "pre-emption inside BackendRegistryState methods is irrelevant because they work on a private copy (validated: no container is shared between copy and original)",
        "acquire/release are merged with the adjacent read/write step (they commute with all steps of other threads that do not touch the lock)",
    ]
    rep.finish()


if __name__ == "__main__":
    main()
