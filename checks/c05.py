"""C05 — graph optimisation preserves meaning and terminates.

(1) every (graph before, graph after) pair observed while running the operation families is compiled with
the real compiler and run on the same SymArrays: z3 proves equal outputs for all contents; (2) synthetic
chains built on the tracer signature layer (reshape/transpose/broadcast/concatenate/cast/wrapper graphs, with
shared intermediates) for all permutation pairs and shape pairs within the bound; (3) CrossHair executes the
real SkipTranspose pattern with symbolic permutations; (4) every pass strictly decreases a node measure.
See DESIGN.md §3 C05.
"""

import collections
import itertools
import os
import random

import numpy as np

from vlib import family, graphs, harness, prove, replay, runner, selftest, symarray as S, xhair
from vlib.desc import expand, shape

BUDGET = runner.ReplayBudget(12)
PROP = "C05"
FAMS = {"id": 90, "elementwise": 60, "reduce": 50, "dot": 50, "get_at": 40, "preserve": 40, "argfind": 30, "update": 50}
THOROUGH_MULT = 10
MAX_PASSES = 40


def numpy_optimizations():
    import einx._src.frontend.impl.numpy as impl

    return impl._get_backend_kwargs()["optimizations"]


def passes(graph, optimizations):
    """Run the real patterns one pass at a time, recording the measure after each pass."""
    from einx._src.tracer.optimizer.optimizer import Optimizer

    ms = [graphs.measure(graph)]
    x = graph
    for _ in range(MAX_PASSES):
        opt = Optimizer(optimizations)
        x = opt._optimize(x)
        ms.append(graphs.measure(x))
        if not opt.changed:
            return x, ms, True
    return x, ms, False


def run_compiled(obj, args):
    tracer = graphs.tr()
    fn = tracer.compiler.python.compile(obj)
    return fn(*args)


def compare_graphs(before, after, args, assumptions, timeout_ms):
    a1 = [S.wrap(S.plain(a).copy()) if isinstance(a, np.ndarray) else a for a in args]
    a2 = [S.wrap(S.plain(a).copy()) if isinstance(a, np.ndarray) else a for a in args]
    try:
        r1 = run_compiled(before, a1)
    except S.UnmodelledPrimitive:
        return "unmodelled", None, 0.0
    except Exception as e:  # noqa: BLE001
        r1 = ("raised", type(e).__name__)
    try:
        r2 = run_compiled(after, a2)
    except S.UnmodelledPrimitive:
        return "unmodelled", None, 0.0
    except Exception as e:  # noqa: BLE001
        r2 = ("raised", type(e).__name__)
    if isinstance(r1, tuple) and r1 and isinstance(r1[0], str) or isinstance(r2, tuple) and r2 and isinstance(r2[0], str):
        same = isinstance(r1, tuple) and isinstance(r2, tuple) and r1 and r2 and isinstance(r1[0], str) and isinstance(r2[0], str) and r1 == r2
        return ("holds-raise" if same else "sat"), None, 0.0
    try:
        l1 = [S.plain(harness.wrapnd(o)) for o in harness.as_list(r1)]
        l2 = [S.plain(harness.wrapnd(o)) for o in harness.as_list(r2)]
        if len(l1) != len(l2):
            return "sat", None, 0.0
        pairs = list(zip(l1, l2)) + [(S.plain(x), S.plain(y)) for x, y in zip(a1, a2) if isinstance(x, np.ndarray)]
        v, m, dt = prove.prove_equal(pairs, assumptions, timeout_ms)
    except prove.ShapeMismatch:
        return "sat", None, 0.0
    return v, m, dt


def work_captured(item):
    case, timeout_ms = item
    import einx

    arrs = harness.build_inputs(case)
    kw = dict(case["kwargs"])
    kw.update(case["opts"])
    res = {"kind": "captured", "op": case["op"], "desc": case["desc"]}
    with graphs.Capture() as cap:
        try:
            getattr(einx, case["op"])(case["desc"], *[S.wrap(S.plain(a).copy()) for a in arrs], graph=True, **kw)
        except Exception as e:  # noqa: BLE001
            res["status"] = harness.classify_exception(e)
            return res
    pair = [p for p in cap._pairs]
    if not pair:
        res["status"] = "cache-hit"
        return res
    before, after_real, opts = pair[-1]
    after, ms, terminated = passes(before, opts)
    res["measures"] = ms
    res["terminated"] = terminated
    res["monotone"] = all(b < a for a, b in zip(ms[:-2], ms[1:-1])) and (len(ms) < 2 or ms[-1] == ms[-2])
    if not terminated:
        res["status"] = "nontermination?"
        return res
    v, m, dt = compare_graphs(before, after, arrs, harness.coord_assumptions(case, arrs), timeout_ms)
    res["verdict"], res["solver_s"] = v, dt
    res["fired"] = ms[0] != ms[-1]
    if v in ("unsat", "trivial", "holds-raise"):
        res["status"] = "holds"
    elif v == "sat":
        res["status"] = "violation?"
    else:
        res["status"] = v
    return res


# ---------------------------------------------------------------------------------------------------
# synthetic chains


def build_chain(spec):
    """spec: ('transpose2', shape, p1, p2, shared) | ('reshape2', s0, s1, s2, shared) | ('broadcast', s) |
    ('concat1', s) | ('mixed', shape, seed). Returns (graph, input shapes)."""
    tracer = graphs.tr()
    tnp = tracer.signature.numpy()
    kind = spec[0]
    T = tracer.signature.classical.Tensor
    if kind == "transpose2":
        _, shp, p1, p2, shared = spec
        x = T(None, shape=shp)
        y = tnp.transpose(x, tuple(p1))
        z = tnp.transpose(y, tuple(p2))
        out = (z, y) if shared else z
        return tracer.Graph([x], out, name="op"), [shp]
    if kind == "reshape2":
        _, s0, s1, s2, shared = spec
        x = T(None, shape=s0)
        y = tnp.reshape(x, tuple(s1))
        z = tnp.reshape(y, tuple(s2))
        out = (z, tnp.negative(y)) if shared else z
        return tracer.Graph([x], out, name="op"), [s0]
    if kind == "broadcast":
        _, shp = spec
        x = T(None, shape=shp)
        y = tnp.broadcast_to(x, tuple(shp))
        z = tnp.broadcast_to(tnp.reshape(y, tuple(shp) + (1,)), tuple(shp) + (2,))
        return tracer.Graph([x], (y, z), name="op"), [shp]
    if kind == "concat1":
        _, shp = spec
        x = T(None, shape=shp)
        y = tnp.concatenate([x], axis=0)
        z = tnp.concatenate([y, x], axis=0)
        return tracer.Graph([x], z, name="op"), [shp]
    if kind == "wrapper":
        # graphs that consist of ONE call: on their inputs in order (may be inlined), swapped, repeated or on a subset
        _, shp, variant = spec
        py = tracer.signature.python
        a, b = T(None, shape=shp), T(None, shape=shp)
        if variant == "in-order":
            return tracer.Graph([a, b], tnp.subtract(a, b), name="op"), [shp, shp]
        if variant == "swapped":
            return tracer.Graph([a, b], tnp.subtract(b, a), name="op"), [shp, shp]
        if variant == "repeated":
            return tracer.Graph([a, b], tnp.subtract(a, a), name="op"), [shp, shp]
        if variant == "second-only":
            return tracer.Graph([a, b], tnp.negative(b), name="op"), [shp, shp]
        if variant in ("nested-swapped", "nested-in-order", "nested-repeated"):
            p_, q_ = T(None, shape=shp), T(None, shape=shp)
            body = {"nested-swapped": lambda p, q: tnp.subtract(q, p), "nested-in-order": lambda p, q: tnp.subtract(p, q), "nested-repeated": lambda p, q: tnp.subtract(q, q)}[variant]
            g = py.function(body, args=[p_, q_])
            r = tracer.cast(py.call(g, [a, b]), lambda origin: T(origin, shape=shp))
            return tracer.Graph([a, b], (r, tnp.negative(r)), name="op"), [shp, shp]
        raise KeyError(variant)
    if kind == "mixed":
        _, shp, seed = spec
        rng = random.Random(seed)
        x = T(None, shape=shp)
        vals = [x]
        cur = x
        for _ in range(rng.randint(2, 6)):
            k = rng.choice(["t", "r", "b", "c", "cast", "wrap", "neg"])
            sh = tuple(cur.shape)
            if k == "t" and len(sh) >= 1:
                p = list(range(len(sh)))
                rng.shuffle(p)
                cur = tnp.transpose(cur, tuple(p))
            elif k == "r":
                n = int(np.prod(sh))
                opts = [s for s in [(n,), (1, n), (n, 1)] + [(a, n // a) for a in range(2, n) if n % a == 0] + [sh]]
                cur = tnp.reshape(cur, rng.choice(opts))
            elif k == "b":
                cur = tnp.broadcast_to(cur, sh)
            elif k == "c":
                cur = tnp.concatenate([cur], axis=0) if len(sh) >= 1 else cur
            elif k == "cast":
                cur = tracer.cast(cur, lambda origin, sh=sh: T(origin, shape=sh))
            elif k == "wrap":
                py = tracer.signature.python
                g = py.function(lambda p: tnp.negative(p), args=[T(None, shape=sh)])
                r = py.call(g, [cur])
                cur = tracer.cast(r, lambda origin, sh=sh: T(origin, shape=sh))
            elif k == "neg":
                cur = tnp.negative(cur)
            vals.append(cur)
        extra = rng.choice(vals)
        out = (cur, extra) if rng.random() < 0.6 else cur
        return tracer.Graph([x], out, name="op"), [shp]
    raise KeyError(kind)


def work_chain(item):
    spec, timeout_ms = item
    res = {"kind": "chain", "spec": runner.jsonable(spec)}
    try:
        graph, shapes = build_chain(spec)
    except Exception as e:  # noqa: BLE001
        res["status"] = "build-error"
        res["error"] = f"{type(e).__name__}: {e}"
        return res
    opts = numpy_optimizations()
    after, ms, terminated = passes(graph, opts)
    res["measures"] = ms
    res["terminated"] = terminated
    res["monotone"] = all(b < a for a, b in zip(ms[:-2], ms[1:-1])) and (len(ms) < 2 or ms[-1] == ms[-2])
    res["fired"] = ms[0] != ms[-1]
    if not terminated:
        res["status"] = "nontermination?"
        return res
    args = [S.fresh(f"x{i}", s) for i, s in enumerate(shapes)]
    v, m, dt = compare_graphs(graph, after, args, [], timeout_ms)
    res["verdict"], res["solver_s"] = v, dt
    res["status"] = "holds" if v in ("unsat", "trivial", "holds-raise") else ("violation?" if v == "sat" else v)
    # also the one-shot public entry point must agree with the pass-by-pass result
    tracer = graphs.tr()
    after2 = tracer.optimize(build_chain(spec)[0], opts)
    res["measure_public"] = graphs.measure(after2)
    return res


CHAIN_REPLAY = r'''#!/verif/.venv/bin/python
"""Replay (C05): graph before vs after the real optimiser, both compiled by the real compiler, evaluated on
plain numpy integers."""
import sys
sys.path.insert(0, "/verif"); sys.path.insert(0, "/repo")
import numpy as np
from checks import c05
from vlib import graphs
import einx._src.tracer as tracer
spec = {spec!r}
graph, shapes = c05.build_chain(spec)
opts = c05.numpy_optimizations()
after, ms, terminated = c05.passes(graph, opts)
print("measures per pass:", ms, "terminated:", terminated)
f1, c1 = tracer.compiler.python.compile(graph, return_code=True)
f2, c2 = tracer.compiler.python.compile(after, return_code=True)
print("--- before ---"); print(c1); print("--- after ---"); print(c2)
args = [np.arange(int(np.prod(s)), dtype=np.int64).reshape(s) * (3 + 2 * i) + 1 + 7 * i for i, s in enumerate(shapes)]
def run(f):
    try:
        r = f(*[a.copy() for a in args])
        return [(np.asarray(x).shape, np.asarray(x).tolist()) for x in (r if isinstance(r, (tuple, list)) else [r])]
    except Exception as e:
        return "raised " + type(e).__name__
r1, r2 = run(f1), run(f2)
print("before:", r1); print("after :", r2)
if r1 != r2 or not terminated:
    print("REPRODUCED: optimisation changed the result" if terminated else "REPRODUCED: optimisation did not reach a fixed point"); sys.exit(1)
print("NOT-REPRODUCED"); sys.exit(0)
'''


def write_chain_replay(spec):
    import hashlib

    os.makedirs(os.path.join(runner.REPLAY_DIR, PROP), exist_ok=True)
    path = os.path.join(runner.REPLAY_DIR, PROP, "chain_" + hashlib.sha1(repr(spec).encode()).hexdigest()[:12] + ".py")
    with open(path, "w") as f:
        f.write(CHAIN_REPLAY.format(spec=spec))
    return path


CAPT_REPLAY = r'''#!/verif/.venv/bin/python
"""Replay (C05): graph of a real einx call before vs after the real optimiser on plain numpy integers."""
import json, os, sys
HASHSEED = "{hashseed}"
if os.environ.get("PYTHONHASHSEED") != HASHSEED:
    os.environ["PYTHONHASHSEED"] = HASHSEED
    os.execv(sys.executable, [sys.executable] + sys.argv)
sys.path.insert(0, "/verif"); sys.path.insert(0, "/repo")
import numpy as np
import einx
from checks import c05
from vlib import graphs
import einx._src.tracer as tracer
SPEC = json.loads(r"""{spec}""")
def tup(v): return tuple(tup(x) for x in v) if isinstance(v, list) else v
args = [np.array(a["data"], dtype=a["dtype"]).reshape(a["shape"]) for a in SPEC["args"]]
kw = {{k: tup(v) for k, v in SPEC["kwargs"].items()}}
with graphs.Capture() as cap:
    getattr(einx, SPEC["op"])(SPEC["desc"], *args, graph=True, **kw)
before, _, opts = cap._pairs[-1]
after, ms, terminated = c05.passes(before, opts)
f1, c1 = tracer.compiler.python.compile(before, return_code=True)
f2, c2 = tracer.compiler.python.compile(after, return_code=True)
print("--- before ---"); print(c1); print("--- after ---"); print(c2)
def run(f):
    try:
        r = f(*[a.copy() for a in args])
        return [(np.asarray(x).shape, np.asarray(x).tolist()) for x in (r if isinstance(r, (tuple, list)) else [r])]
    except Exception as e:
        return "raised " + type(e).__name__
r1, r2 = run(f1), run(f2)
print("before:", r1); print("after :", r2)
if r1 != r2 or not terminated:
    print("REPRODUCED: optimisation changed the result" if terminated else "REPRODUCED: no fixed point"); sys.exit(1)
print("NOT-REPRODUCED"); sys.exit(0)
'''


def write_captured_replay(case):
    import hashlib, json

    from checks.c04 import write_captured_replay as _w  # same argument encoding

    conc = []
    for e, k in zip(case["ins"], case["kinds"]):
        sh = shape(expand(e))
        n = int(np.prod(sh)) if sh else 1
        a = (np.arange(n) % 2 == 0).reshape(sh) if k == "bool" else (np.zeros(sh, dtype=np.int64) if k == "coord" else (np.arange(n, dtype=np.int64) * 3 + 1).reshape(sh))
        conc.append({"data": a.tolist(), "dtype": str(a.dtype), "shape": list(sh)})
    spec = {"op": case["op"], "desc": case["desc"], "args": conc, "kwargs": runner.jsonable(dict(case["kwargs"], **case["opts"]))}
    text = json.dumps(spec)
    os.makedirs(os.path.join(runner.REPLAY_DIR, PROP), exist_ok=True)
    path = os.path.join(runner.REPLAY_DIR, PROP, "captured_" + hashlib.sha1(text.encode()).hexdigest()[:12] + ".py")
    with open(path, "w") as f:
        f.write(CAPT_REPLAY.format(spec=text, hashseed=os.environ.get("PYTHONHASHSEED", "0")))
    return path


def chain_specs(tier, seed):
    specs = []
    max_rank = 4 if tier == "quick" else 5
    rng = random.Random(seed)
    for rank in range(1, max_rank + 1):
        perms = list(itertools.permutations(range(rank)))
        pairs = list(itertools.product(perms, perms))
        if rank >= 4 and tier == "quick":
            pairs = rng.sample(pairs, 150)
        if rank >= 5:
            pairs = rng.sample(pairs, 1500)
        for p1, p2 in pairs:
            # equal lengths everywhere (the case shape checks are blind to) and one mixed-length variant
            specs.append(("transpose2", (2,) * rank, p1, p2, rng.random() < 0.3))
            if rng.random() < 0.3:
                specs.append(("transpose2", tuple(rng.choice([1, 2, 3]) for _ in range(rank)), p1, p2, rng.random() < 0.5))
    shapes_by_n = collections.defaultdict(list)
    for n in [1, 2, 4, 6, 8, 12, 24] if tier == "quick" else [1, 2, 3, 4, 6, 8, 12, 16, 24]:
        for r in range(1, 4):
            for s in itertools.product(range(1, n + 1), repeat=r):
                if int(np.prod(s)) == n:
                    shapes_by_n[n].append(s)
    for n, shs in shapes_by_n.items():
        triples = list(itertools.product(shs, repeat=3))
        if len(triples) > (60 if tier == "quick" else 600):
            triples = rng.sample(triples, 60 if tier == "quick" else 600)
        for s0, s1, s2 in triples:
            specs.append(("reshape2", s0, s1, s2, rng.random() < 0.4))
    for shp in [(2,), (2, 3), (1, 2), (2, 2, 2)]:
        specs.append(("broadcast", shp))
        specs.append(("concat1", shp))
    for shp in [(2,), (2, 2), (3, 3), (2, 3)]:
        for variant in ("in-order", "swapped", "repeated", "second-only", "nested-swapped", "nested-in-order", "nested-repeated"):
            specs.append(("wrapper", shp, variant))
    for i in range(300 if tier == "quick" else 4000):
        specs.append(("mixed", rng.choice([(2, 3), (2, 2), (4,), (2, 1, 3), (2, 2, 2)]), seed * 7919 + i))
    return specs


def main():
    tier, seed = runner.tier(), runner.seed()
    rep = runner.Report(PROP, "translation_validation")
    st = selftest.run(seed)
    if st["failures"]:
        rep.harness_error("primitive model self-test failed: " + "; ".join(st["failures"][:5]))
    mult = THOROUGH_MULT if tier == "thorough" else 1
    timeout_ms = 30000 if tier == "thorough" else 10000
    # (3) CrossHair lemma in the background while the z3 parts run
    xh = xhair.start("c05_transpose", only=["cond_rank2", "cond_rank3", "twin_"] if tier == "quick" else None, per_condition_timeout=100 if tier == "quick" else 1200)
    cap_items = [(c, timeout_ms) for fam, n in FAMS.items() for c in family.generate(fam, n * mult, seed + 5, tier)]
    chain_items = [(s, timeout_ms) for s in chain_specs(tier, seed)]
    res_cap = runner.pmap(work_captured, cap_items, chunksize=4)
    res_chain = runner.pmap(work_chain, chain_items, chunksize=16)
    status = collections.Counter()
    fired = collections.Counter()
    samples, nontrivial = [], set()
    solver_s = 0.0
    max_passes = 0
    for (case, _), r in zip(cap_items, res_cap):
        st_ = r["status"]
        if (st_ in ("violation?", "nontermination?")) and not BUDGET.take():
            st_ = "sat-not-replayed"
        elif st_ in ("violation?", "nontermination?"):
            path = write_captured_replay(case)
            ok, out = replay.run_script(path, python=replay.VENV_PY)
            r["replay"], r["replay_out"] = path, out[-1500:]
            st_ = "violation" if ok else "not-reproduced"
        if st_ == "holds" and not r.get("monotone", True):
            path = write_captured_replay(case)
            rep.violation({"kind": "measure", "op": case["op"], "desc": case["desc"]}, path, f"a pass that changed the graph did not decrease the node measure: {r['measures']}")
        status["captured:" + st_] += 1
        solver_s += r.get("solver_s", 0.0)
        if st_ == "holds":
            max_passes = max(max_passes, len(r["measures"]) - 1)
            fired["captured:fired" if r.get("fired") else "captured:nothing-to-do"] += 1
            if r.get("fired"):
                nontrivial.add(("captured", case["op"], case["desc"]))
        elif st_ == "violation":
            rep.violation({"kind": "captured", "op": case["op"], "desc": case["desc"]}, r["replay"], f"einx.{case['op']}({case['desc']!r}): optimised graph differs\n{r.get('replay_out', '')[-900:]}")
        elif st_ == "not-reproduced":
            rep.harness_error(f"captured optimiser finding did not reproduce: {case['op']} {case['desc']!r} {r.get('replay_out', '')[-300:]}")
        elif st_ == "harness-error":
            rep.harness_error(f"{r.get('error')} {r.get('trace', '')[-600:]}")
        elif st_ in ("unknown", "unmodelled"):
            rep.inconclusive.append({"why": st_, "op": case["op"], "desc": case["desc"]})
    for (spec, _), r in zip(chain_items, res_chain):
        st_ = r["status"]
        if (st_ in ("violation?", "nontermination?")) and not BUDGET.take():
            st_ = "sat-not-replayed"
        elif st_ in ("violation?", "nontermination?"):
            path = write_chain_replay(spec)
            ok, out = replay.run_script(path, python=replay.VENV_PY)
            r["replay"], r["replay_out"] = path, out[-1500:]
            st_ = "violation" if ok else "not-reproduced"
        if st_ == "holds" and not r.get("monotone", True):
            rep.violation({"kind": "measure", "spec": runner.jsonable(spec)}, write_chain_replay(spec), f"a pass that changed the graph did not decrease the node measure: {r['measures']}")
        status[f"chain-{spec[0]}:{st_}"] += 1
        solver_s += r.get("solver_s", 0.0)
        if st_ == "holds":
            max_passes = max(max_passes, len(r["measures"]) - 1)
            fired[f"chain-{spec[0]}:fired" if r.get("fired") else f"chain-{spec[0]}:nothing-to-do"] += 1
            if r.get("fired"):
                nontrivial.add(("chain", repr(spec)))
                if len(samples) < 8 and spec[0] in ("transpose2", "mixed") and len(samples) < 8 and fired[f"chain-{spec[0]}:fired"] <= 3:
                    samples.append({"chain": runner.jsonable(spec), "measure_per_pass": r["measures"], "verdict": r.get("verdict")})
        elif st_ == "violation":
            rep.violation({"kind": "chain", "spec": runner.jsonable(spec)}, r["replay"], f"chain {spec}: optimised graph differs\n{r.get('replay_out', '')[-900:]}")
        elif st_ == "not-reproduced":
            rep.harness_error(f"chain finding did not reproduce: {spec} {r.get('replay_out', '')[-300:]}")
        elif st_ in ("harness-error", "build-error"):
            rep.harness_error(f"{st_}: {spec} {r.get('error')} {r.get('trace', '')[-600:]}")
        elif st_ in ("unknown", "unmodelled"):
            rep.inconclusive.append({"why": st_, "spec": runner.jsonable(spec)})
    xres = xhair.finish(xh)
    for c in xres["conditions"]:
        if c["verdict"] == "counterexample":
            path = xhair.write_replay(PROP, c)
            ok, out = replay.run_script(path, python=replay.VENV_PY)
            if ok:
                rep.violation({"kind": "crosshair", "condition": c["name"]}, path, f"CrossHair counterexample for {c['name']}: {c['message']}\n{out[-600:]}")
            else:
                rep.harness_error(f"CrossHair counterexample did not reproduce: {c['name']} {c['message']} {out[-300:]}")
        elif c["verdict"] == "twin-refuted":
            pass
        elif c["verdict"] == "twin-not-refuted":
            rep.harness_error(f"CrossHair vacuity twin {c['name']} was not refuted: {c['message']}")
        elif c["verdict"] != "confirmed":
            rep.inconclusive.append({"why": "crosshair " + c["verdict"], "condition": c["name"], "message": c["message"][:200]})
    # vacuity twin for the z3 part: a wrong merge (reversed composition) must be refuted
    twin = vacuity_twin()
    if twin != "sat":
        rep.harness_error(f"vacuity twin (reversed permutation composition) came back {twin!r}")
    rep.coverage = {
        "programs": len(cap_items) + len(chain_items),
        "disagreements_checked": sum(v for k, v in status.items() if k.endswith(":violation") or k.endswith("not-reproduced")),
        "samples": samples,
        "evaluations": len(cap_items) + len(chain_items),
        "distinct_nontrivial": len(nontrivial),
        "rule": "one harness = one graph (captured from a real call or a synthetic chain): real patterns applied pass by pass, graph before and after compiled by the real compiler and run on the same symbolic tensors; non-trivial = at least one pattern fired and z3 proved equal outputs and argument states for all contents",
        "status_counts": dict(status),
        "patterns_fired": dict(fired),
        "max_passes_to_fixed_point": max_passes,
        "solver_time_s": round(solver_s, 3),
        "crosshair": xres,
        "vacuity_twin_reversed_composition": twin,
        "bounds": dict(family.Bounds(tier).as_dict(), permutation_rank_max=4 if tier == "quick" else 5, reshape_elements_max=24, pass_cap=MAX_PASSES),
        "termination": "bounded observation: every pass that changed a graph strictly decreased #Call+#CallInplace+#Cast+#Graph; not a termination proof",
    }
    rep.assumptions = ["tensor contents are mathematical integers", "the pass loop of tracer.optimize is replicated pass by pass with the real Optimizer class to observe intermediate graphs"]
    rep.finish()


def vacuity_twin():
    """The reversed composition perm2[p] for p in perm1 must be refuted by the same machinery."""
    tracer = graphs.tr()
    tnp = tracer.signature.numpy()
    shp, p1, p2 = (2, 2, 2), (1, 2, 0), (0, 2, 1)
    x = tracer.signature.classical.Tensor(None, shape=shp)
    good = tracer.Graph([x], tnp.transpose(tnp.transpose(x, p1), p2), name="op")
    y = tracer.signature.classical.Tensor(None, shape=shp)
    wrong = tracer.Graph([y], tnp.transpose(y, tuple(p2[p] for p in p1)), name="op")
    v, m, dt = compare_graphs(good, wrong, [S.fresh("x0", shp)], [], 10000)
    return v


if __name__ == "__main__":
    main()
