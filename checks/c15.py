"""C15 — adapted user functions follow loop-notation semantics; their outputs are checked.

The user function's *value* is an uninterpreted z3 function of the ordered sub-tensor (reduce adapter) or of
the aligned scalars (element-wise adapter), so one `unsat` covers every possible user function of that
arity. RefSem uses the same uninterpreted function as elementary operation. See DESIGN.md §3 C15.
"""

import collections
import random

import numpy as np
import z3

from vlib import elem, family, harness, prove, refsem, replay, runner, selftest, symarray as S
from vlib.desc import Ax, Brk, expand, shape, leaves

PROP = "C15"
N = {"reduce": 220, "elementwise": 200}
THOROUGH_MULT = 10
_UF = {}


def uf(name, arity):
    key = (name, arity)
    if key not in _UF:
        _UF[key] = z3.Function(f"{name}{arity}", *([z3.IntSort()] * arity), z3.IntSort())
    return _UF[key]


def opt_code(k):
    """An option value enters the uninterpreted function together with its Python type: 2, 2.0 and True are
    different arguments for a user function."""
    if isinstance(k, str):
        return z3.IntVal(3_000_000 + sum((i + 1) * ord(ch) for i, ch in enumerate(k)))
    if isinstance(k, (bool, np.bool_)):
        return z3.IntVal(2_000_000 + int(k))
    if isinstance(k, (float, np.floating)):
        return z3.IntVal(1_000_000 + int(round(float(k) * 16)) + (500_000 if str(float(k)).startswith("-0.0") else 0))
    return z3.IntVal(int(k))


def F_lane(lane, kw):
    args = [elem.z(elem.arith(x)) for x in lane] + [opt_code(k) for k in kw]
    return uf("F", len(args))(*args)


def G_point(vals, kw):
    args = [elem.z(elem.arith(x)) for x in vals] + [opt_code(k) for k in kw]
    return uf("G", len(args))(*args)


OPTION_NAMES = ["scale", "s", "i", "ax", "xi", "xis", "k", "ddof", "out_scale", "keepdim", "shift_"]


def _define(src, env):
    ns = dict(env)
    exec(src, ns)  # noqa: S102 - builds the harness function with a keyword-only option of the requested name
    return ns["f"]


def make_reduce(log, with_kw, opt="scale"):
    env = {"log": log, "np": np, "S": S, "F_lane": F_lane}
    if with_kw:
        src = f"""def f(x, axis, *, {opt}=1):
    log.append({{"shape": tuple(np.shape(x)), "axis": axis, "kw": {{"{opt}": {opt}}}, "type": type(x).__name__}})
    return S._lane_reduce(lambda lane: F_lane(lane, [{opt}]), x, axis=axis)
"""
    else:
        src = """def f(x, axis):
    log.append({"shape": tuple(np.shape(x)), "axis": axis, "kw": {}, "type": type(x).__name__})
    return S._lane_reduce(lambda lane: F_lane(lane, []), x, axis=axis)
"""
    return _define(src, env)


def make_elementwise(log, k, with_kw, opt="scale"):
    env = {"log": log, "np": np, "S": S, "G_point": G_point}
    if with_kw:
        src = f"""def f(*xs, {opt}=1):
    log.append({{"shapes": [tuple(np.shape(x)) for x in xs], "types": [type(x).__name__ for x in xs], "kw": {{"{opt}": {opt}}}}})
    return S._map(lambda *v: G_point(v, [{opt}]), *xs)
"""
    else:
        src = """def f(*xs):
    log.append({"shapes": [tuple(np.shape(x)) for x in xs], "types": [type(x).__name__ for x in xs], "kw": {}})
    return S._map(lambda *v: G_point(v, []), *xs)
"""
    return _define(src, env)


def concrete_fn(kind, with_kw):
    """A concrete, order-sensitive stand-in used only for replay on plain numpy."""
    if kind == "reduce":

        def f(x, axis, *, scale=1):
            x = np.asarray(x)
            axis = tuple(axis) if isinstance(axis, (tuple, list)) else (axis,)
            keep = [i for i in range(x.ndim) if i not in axis]
            y = np.transpose(x, keep + sorted(axis)).reshape(tuple(x.shape[i] for i in keep) + (-1,))
            v = sum((i + 1) * ord(ch) for i, ch in enumerate(scale)) if isinstance(scale, str) else int(scale)
            w = np.arange(1, y.shape[-1] + 1) ** 2 + v
            return (y * w).sum(-1) + 7 * v + (1 if isinstance(scale, float) else 0) + (2 if isinstance(scale, bool) else 0)

        return f

    def g(*xs, scale=1):
        out = 0
        for i, x in enumerate(xs):
            out = out + (i + 2) ** 2 * np.asarray(x)
        unaligned = any(np.ndim(x) != np.ndim(xs[0]) for x in xs) or (np.ndim(xs[0]) > 0 and any(not isinstance(x, np.ndarray) for x in xs))
        v = sum((i + 1) * ord(ch) for i, ch in enumerate(scale)) if isinstance(scale, str) else int(scale)
        return out + 5 * v + (1 if isinstance(scale, float) else 0) + (2 if isinstance(scale, bool) else 0) + (100000 if unaligned else 0)

    return g


REPLAY_FN = '''
def user_reduce(x, axis, *, scale=1):
    x = np.asarray(x)
    axis = tuple(axis) if isinstance(axis, (tuple, list)) else (axis,)
    keep = [i for i in range(x.ndim) if i not in axis]
    y = np.transpose(x, keep + sorted(axis)).reshape(tuple(x.shape[i] for i in keep) + (-1,))
    v = sum((i + 1) * ord(ch) for i, ch in enumerate(scale)) if isinstance(scale, str) else int(scale)
    w = np.arange(1, y.shape[-1] + 1) ** 2 + v
    return (y * w).sum(-1) + 7 * v + (1 if isinstance(scale, float) else 0) + (2 if isinstance(scale, bool) else 0)
def user_elementwise(*xs, scale=1):
    out = 0
    for i, x in enumerate(xs):
        out = out + (i + 2) ** 2 * np.asarray(x)
    unaligned = any(np.ndim(x) != np.ndim(xs[0]) for x in xs) or (np.ndim(xs[0]) > 0 and any(not isinstance(x, np.ndarray) for x in xs))
    v = sum((i + 1) * ord(ch) for i, ch in enumerate(scale)) if isinstance(scale, str) else int(scale)
    return out + 5 * v + (1 if isinstance(scale, float) else 0) + (2 if isinstance(scale, bool) else 0) + (100000 if unaligned else 0)
'''


def kw_same(got, want):
    return set(got) == set(want) and all(type(got[k]) is type(want[k]) and got[k] == want[k] for k in want)


def work(item):
    case, kind, with_kw, timeout_ms = item
    import einx

    log = []
    used = set(case["desc"].replace("(", " ").replace(")", " ").replace("[", " ").replace("]", " ").replace(",", " ").replace("->", " ").replace("...", " ").split()) | set(case["kwargs"])
    orng = random.Random(case["desc"])
    opt = orng.choice([o for o in OPTION_NAMES if o not in used])
    fn = make_reduce(log, with_kw, opt) if kind == "reduce" else make_elementwise(log, len(case["ins"]), with_kw, opt)
    einfn = (einx.numpy.adapt_numpylike_reduce if kind == "reduce" else einx.numpy.adapt_numpylike_elementwise)(fn)
    arrs = harness.build_inputs(case)
    # operands with an empty expression may be given as plain Python numbers: the user function must still receive
    # tensors of equal rank
    py_scalars = {}
    if kind == "elementwise" and len(case["ins"]) >= 2 and any(len(e) > 0 for e in case["ins"]):
        for i, e in enumerate(case["ins"]):
            if len(e) == 0 and orng.random() < 0.6:
                py_scalars[i] = orng.choice([2, 3, 7])
                arrs[i] = S.from_concrete(np.array(py_scalars[i]))
    res = {"desc": case["desc"], "kind": kind, "with_kw": with_kw, "option": opt, "results": [], "python_scalars": sorted(py_scalars)}
    scales = [2, 3.0, 2.0, 2, True, 'say "hi"', "tab" + chr(92) + "t", "it's", "line" + chr(10) + "break"] if with_kw else [None]
    for call_no, scale in enumerate(scales):
        kw = dict(case["kwargs"])
        if scale is not None:
            kw[opt] = scale
        del log[:]
        r = {"scale": scale}
        try:
            out = einfn(case["desc"], *[py_scalars[i] if i in py_scalars else S.wrap(S.plain(a).copy()) for i, a in enumerate(arrs)], **kw)
        except Exception as e:  # noqa: BLE001
            r["status"] = harness.classify_exception(e)
            r["error"] = f"{type(e).__name__}: {str(e)[:400]}"
            res["results"].append(r)
            continue
        kwv = [scale] if scale is not None else []
        ins, outs = harness.sem_ins(case, arrs), harness.sem_outs(case)
        if kind == "reduce":
            ref = refsem.op_reduce("user", ins, outs, lane_fn=lambda lane: F_lane(lane, kwv))
        else:

            def el(*subs):
                return [refsem.as0(G_point([s[()] for s in subs], kwv))]

            ref = refsem.run(ins, outs, el)
        try:
            v, model, dt = prove.prove_equal([(S.plain(harness.wrapnd(out)), ref[0])], [], timeout_ms)
        except prove.ShapeMismatch as e:
            v, model, dt = "sat", None, 0.0
            r["shape_mismatch"] = str(e)
        r["verdict"], r["solver_s"] = v, dt
        # the arguments the user function received
        r["calls"] = len(log)
        ok_args = len(log) == 1
        if ok_args and kind == "reduce":
            c = log[0]
            ax = c["axis"]
            bl = [l.size for l, b in leaves(expand(case["ins"][0])) if b]
            ok_args = isinstance(ax, tuple) and all(isinstance(a, (int, np.integer)) for a in ax) and list(ax) == sorted(set(ax)) and [c["shape"][a] for a in ax if c["shape"][a] != 1] == [b for b in bl if b != 1] and kw_same(c["kw"], {opt: scale} if scale is not None else {}) and c["type"] == "SymArray"
        elif ok_args:
            c = log[0]
            nd = {len(s) for s in c["shapes"]}
            try:
                np.broadcast_shapes(*c["shapes"])
                bc = True
            except ValueError:
                bc = False
            ok_args = len(nd) == 1 and bc and len(c["shapes"]) == len(case["ins"]) and (all(t in ("SymArray", "ndarray") for t in c.get("types", [])) or all(len(s_) == 0 for s_ in c["shapes"])) and kw_same(c["kw"], {opt: scale} if scale is not None else {})
        r["args_ok"] = ok_args
        if v in ("unsat", "trivial") and ok_args:
            r["status"] = "holds"
        elif v == "unknown":
            r["status"] = "unknown"
        else:
            # replay with a concrete order-sensitive function on plain numpy
            r["status"] = replay_concrete(case, kind, with_kw, scale, model, arrs, r, not ok_args, log, opt, py_scalars)
        res["results"].append(r)
    return res


def replay_concrete(case, kind, with_kw, scale, model, arrs, r, args_bad, log, opt="scale", py_scalars=None):
    import hashlib, json, os

    if model is not None:
        conc = replay.conc_arrays(case, [prove.concretise(a, model) for a in arrs])
    else:
        conc = [np.array([(i * 7 + 3) % 11 for i in range(int(np.prod(a.shape)))], dtype=object).reshape(a.shape) for a in arrs]
    # make contents distinct so a mis-routed element is visible whatever the model left unconstrained
    base = 0
    for a in conc:
        for i, pos in enumerate(np.ndindex(*a.shape)):
            a[pos] = int(a[pos]) * 1000 + base + i
        base += 97
    f = concrete_fn(kind, with_kw)
    kwv = {"scale": scale} if scale is not None else {}
    ins = [(expand(e), a) for e, a in zip(case["ins"], conc)]
    outs = [expand(e) for e in case["outs"]]
    if kind == "reduce":
        ref = refsem.op_reduce("user", ins, outs, lane_fn=lambda lane: int(f(np.array([int(x) for x in lane]), axis=0, **kwv)))
    else:
        ref = refsem.run(ins, outs, lambda *subs: [refsem.as0(int(f(*[np.array(int(s[()])) for s in subs], **kwv)))])
    spec = {
        "desc": case["desc"],
        "kind": kind,
        "with_kw": with_kw,
        "kwargs": runner.jsonable(dict(case["kwargs"], **({opt: scale} if scale is not None else {}))),
        "option": opt,
        "python_scalars": sorted(py_scalars or {}),
        "args": [replay.enc_array(a, "int") for a in conc],
        "expected": np.array(ref[0], dtype=object).tolist() if ref[0].shape != () else int(ref[0][()]),
        "expected_shape": list(ref[0].shape),
    }
    text = json.dumps(runner.jsonable(spec))
    os.makedirs(os.path.join(runner.REPLAY_DIR, PROP), exist_ok=True)
    path = os.path.join(runner.REPLAY_DIR, PROP, "adapt_" + hashlib.sha1(text.encode()).hexdigest()[:12] + ".py")
    with open(path, "w") as fh:
        fh.write(
            "#!/venv/bin/python\n\"\"\"Replay (C15): adapted user function vs loop notation with the same function.\"\"\"\n"
            "import json, sys\nimport numpy as np\nsys.path.insert(0, '/repo')\nimport einx\n" + REPLAY_FN + "SPEC = json.loads(r'''" + text + "''')\n"
            "def tup(v):\n    return tuple(tup(x) for x in v) if isinstance(v, list) else v\n"
            "base = user_reduce if SPEC['kind'] == 'reduce' else user_elementwise\n"
            "if not SPEC['with_kw']:\n    fn = (lambda x, axis: base(x, axis)) if SPEC['kind'] == 'reduce' else (lambda *xs: base(*xs))\n"
            "else:\n    ns = {'base': base}\n    exec(('def fn(x, axis, *, %s=1):\\n    return base(x, axis, scale=%s)' if SPEC['kind'] == 'reduce' else 'def fn(*xs, %s=1):\\n    return base(*xs, scale=%s)') % (SPEC['option'], SPEC['option']), ns)\n    fn = ns['fn']\n"
            "ein = (einx.numpy.adapt_numpylike_reduce if SPEC['kind'] == 'reduce' else einx.numpy.adapt_numpylike_elementwise)(fn)\n"
            "args = [np.array(a['data'], dtype=a['dtype']).reshape(a['shape']) for a in SPEC['args']]\n"
            "args = [int(a) if i in SPEC['python_scalars'] else a for i, a in enumerate(args)]\n"
            "out = np.asarray(ein(SPEC['desc'], *args, **{k: tup(v) for k, v in SPEC['kwargs'].items()}))\n"
            "exp = np.array(SPEC['expected']).reshape(SPEC['expected_shape'])\n"
            "print('call:', SPEC['desc'], SPEC['kwargs'])\nprint('got', out.tolist())\nprint('loop notation', exp.tolist())\n"
            "if out.shape != exp.shape or not np.array_equal(out, exp):\n    print('REPRODUCED: adapted function result differs from the loop notation applied to the same function')\n    sys.exit(1)\n"
            "print('NOT-REPRODUCED')\n"
        )
    ok, out = replay.run_script(path)
    r["replay"], r["replay_out"] = path, out[-1200:]
    if ok:
        return "violation"
    if args_bad:
        r["replay_out"] = f"user function received {log}"
        return "args-unconfirmed"  # the logged arguments differ from the documented ones, but the concrete replay computes the expected values
    return "not-reproduced"


def monitors():
    """Concrete monitors: keyword clash, misbehaving functions (wrong type / arity / shape)."""
    import einx

    out = []
    x = np.arange(6).reshape(2, 3)

    def red_kw(x, axis, *, scale=1):
        return np.sum(x, axis=axis) * scale

    e = einx.numpy.adapt_numpylike_reduce(red_kw)
    # keyword-only name used as an axis name -> SemanticError, and never captured as a size
    try:
        e("a [scale] -> a", x)
        out.append(("clash-axis-name", "no exception"))
    except einx.errors.SemanticError:
        out.append(("clash-axis-name", "ok"))
    except Exception as ex:  # noqa: BLE001
        out.append(("clash-axis-name", f"{type(ex).__name__}"))
    r1 = e("a [b] -> a", x, scale=2)
    r2 = e("a [b] -> a", x, scale=5)
    r3 = e("a [b] -> a", x, scale=2)
    out.append(("kw-forward-across-cache", "ok" if (r1 == x.sum(1) * 2).all() and (r2 == x.sum(1) * 5).all() and (r3 == r1).all() else f"{r1} {r2} {r3}"))

    def bad(kind):
        if kind == "type":
            return lambda x, axis: np.sum(x, axis=axis).tolist()
        if kind == "shape":
            return lambda x, axis: np.sum(x, axis=axis)[..., None]
        if kind == "arity":
            return lambda x, axis: (np.sum(x, axis=axis), np.sum(x, axis=axis))
        if kind == "shape-transposed":
            return lambda x, axis: np.zeros((3,))

    for kind in ["type", "shape", "arity", "shape-transposed"]:
        f = einx.numpy.adapt_numpylike_reduce(bad(kind))
        try:
            r = f("a [b] c -> a c" if kind != "shape-transposed" else "a [b] -> a", np.zeros((2, 3, 2)) if kind != "shape-transposed" else x)
            out.append((f"bad-reduce-{kind}", f"returned {type(r).__name__}"))
        except Exception:  # noqa: BLE001
            out.append((f"bad-reduce-{kind}", "ok"))
    for kind, fn in [("type", lambda a, b: (a + b).tolist()), ("shape", lambda a, b: (a + b)[0]), ("arity", lambda a, b: (a, b))]:
        f = einx.numpy.adapt_numpylike_elementwise(fn)
        try:
            r = f("a b, b -> a b", x, np.arange(3))
            out.append((f"bad-elementwise-{kind}", f"returned {type(r).__name__}"))
        except Exception:  # noqa: BLE001
            out.append((f"bad-elementwise-{kind}", "ok"))

    # wrong type with the right shape: values numpy could consume but that are not tensors of the backend
    class ArrayLike:
        def __init__(self, a):
            self._a = np.asarray(a)
            self.shape, self.dtype, self.ndim = self._a.shape, self._a.dtype, self._a.ndim

        def __array__(self, dtype=None, copy=None):
            return self._a

    wrappers = [("memoryview", lambda a: memoryview(np.ascontiguousarray(a))), ("array-like", ArrayLike), ("np.float64-for-0d", lambda a: np.float64(np.sum(a)) if np.ndim(a) == 0 else ArrayLike(a)), ("nested-tuple", lambda a: tuple(np.asarray(a).tolist()) if np.ndim(a) else float(a))]
    for wname, wrap in wrappers:
        for attempt in ("first", "repeat"):
            f = einx.numpy.adapt_numpylike_reduce(lambda x, axis, wrap=wrap: wrap(np.sum(x, axis=axis)))
            for desc, arr in (("a [b] c -> a c", np.zeros((2, 3, 2))), ("[a b]", np.zeros((2, 3)))):
                try:
                    r = f(desc, arr)
                    out.append((f"bad-reduce-type-{wname}:{desc}:{attempt}", f"returned {type(r).__name__}"))
                except Exception:  # noqa: BLE001
                    out.append((f"bad-reduce-type-{wname}:{desc}:{attempt}", "ok"))
            g = einx.numpy.adapt_numpylike_elementwise(lambda a, b, wrap=wrap: wrap(a + b))
            try:
                r = g("a b, b -> a b", x, np.arange(3))
                out.append((f"bad-elementwise-type-{wname}:{attempt}", f"returned {type(r).__name__}"))
            except Exception:  # noqa: BLE001
                out.append((f"bad-elementwise-type-{wname}:{attempt}", "ok"))
    return out


def main():
    tier, seed = runner.tier(), runner.seed()
    rep = runner.Report(PROP, "translation_validation")
    st = selftest.run(seed)
    if st["failures"]:
        rep.harness_error("primitive model self-test failed: " + "; ".join(st["failures"][:5]))
    mult = THOROUGH_MULT if tier == "thorough" else 1
    timeout_ms = 30000 if tier == "thorough" else 10000
    items = []
    rng = random.Random(seed)
    for c in family.generate("reduce", N["reduce"] * mult, seed + 15, tier) + family.exhaustive("reduce-brackets"):
        lane = int(np.prod([l.size for l, b in leaves(expand(c["ins"][0])) if b] or [1]))
        if lane <= 9 and c["kinds"] == ["int"]:
            c = dict(c, op="sum")
            items.append((c, "reduce", rng.random() < 0.4, timeout_ms))
    for c in family.generate("elementwise", N["elementwise"] * mult, seed + 15, tier):
        if c["op"] in ("add", "multiply", "maximum", "minimum", "subtract", "where", "less") and len(c["ins"]) <= 3:
            c = dict(c, kinds=["int"] * len(c["ins"]))
            items.append((c, "elementwise", rng.random() < 0.4, timeout_ms))
    results = runner.pmap(work, items, chunksize=4)
    status = collections.Counter()
    samples, nontrivial = [], set()
    solver_s, n = 0.0, 0
    for (case, kind, with_kw, _), wr in zip(items, results):
        if wr.get("status") == "harness-error":
            rep.harness_error(f"{wr.get('error')} {wr.get('trace', '')[-800:]}")
            continue
        for r in wr["results"]:
            n += 1
            st_ = r["status"]
            status[f"{kind}:{st_}"] += 1
            solver_s += r.get("solver_s", 0.0)
            if st_ == "holds":
                nontrivial.add((kind, case["desc"], with_kw, r["scale"]))
                if len(samples) < 8 and with_kw:
                    samples.append({"adapter": kind, "desc": case["desc"], "keyword": r["scale"], "verdict": r["verdict"], "user_function": "uninterpreted F/G"})
            elif st_ in ("violation", "args-violation"):
                sig = {"adapter": kind, "desc": case["desc"], "with_kw": with_kw, "kind": st_}
                rep.violation(sig, r.get("replay", "-"), f"adapt_numpylike_{kind}(f)({case['desc']!r}) scale={r['scale']}: {st_}\n{r.get('replay_out', '')[-600:]}")
            elif st_ == "not-reproduced":
                rep.harness_error(f"counterexample did not reproduce: adapter {kind} {case['desc']!r} replay={r.get('replay')} {r.get('replay_out', '')[-300:]}")
            else:
                rep.inconclusive.append({"why": st_, "adapter": kind, "desc": case["desc"], "error": r.get("error")})
    mons = monitors()
    for name, outcome in mons:
        if outcome != "ok":
            path = "-"
            rep.violation({"monitor": name, "outcome": outcome}, write_monitor_replay(name), f"monitor {name}: {outcome}")
    rep.coverage = {
        "programs": n,
        "disagreements_checked": sum(v for k, v in status.items() if k.endswith("violation") or k.endswith("not-reproduced")),
        "samples": samples,
        "evaluations": n,
        "distinct_nontrivial": len(nontrivial),
        "rule": "one harness = (adapter, description, shapes, keyword value, call number); the user function is an uninterpreted z3 function, so unsat holds for every function of that arity; non-trivial = unsat and the recorded arguments match the adapter's contract",
        "status_counts": dict(status),
        "concrete_monitors": dict(mons),
        "solver_time_s": round(solver_s, 3),
        "bounds": dict(family.Bounds(tier).as_dict(), sub_tensor_elements_max=9, elementwise_inputs_max=3),
        "outside": "adapt_with_vmap: no vmap-capable framework installed",
    }
    rep.assumptions = ["contents are mathematical integers", "user function modelled as a pure function of the ordered sub-tensor / aligned scalars and its keyword-only options"]
    rep.finish()


def write_monitor_replay(name):
    import os

    os.makedirs(os.path.join(runner.REPLAY_DIR, PROP), exist_ok=True)
    import re

    path = os.path.join(runner.REPLAY_DIR, PROP, "monitor_" + re.sub(r"[^A-Za-z0-9_.-]+", "_", name) + ".py")
    with open(path, "w") as f:
        f.write(
            "#!/verif/.venv/bin/python\nimport sys\nsys.path.insert(0, '/verif')\nsys.path.insert(0, '/repo')\n"
            "from checks.c15 import monitors\n"
            f"bad = [m for m in monitors() if m[0] == {name!r} and m[1] != 'ok']\nprint(bad)\n"
            "print('REPRODUCED: ' + str(bad) if bad else 'NOT-REPRODUCED')\nsys.exit(1 if bad else 0)\n"
        )
    return path


if __name__ == "__main__":
    main()
