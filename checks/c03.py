"""C03 — ill-formed calls are rejected with documented errors, never computed.

Layer 1 (strings): CrossHair runs the real pre-solve stage of every operation family on token sequences
(symbolic ints): only documented exception classes (or the solver cut) may come out.
Layer 2 (single-edit corruptions of valid calls): each family member is corrupted by one edit; whether the
corrupted call is really ill-formed is decided by z3 on the constraint system (vlib/axes.py); an ill-formed
call must raise a documented class, any call must not raise an internal class.
Layer 3: tensors are SymArrays; the numpy dispatch counter must be 0 when an exception surfaces.
See DESIGN.md §3 C03.
"""

import collections
import json
import os
import random
import re
import sys

import numpy as np

from vlib import axes, family, harness, replay, runner, symarray as S, xgen, xhair
from vlib.desc import Ax, Num, Grp, Cat, Brk, Ell, expand, shape, leaves
from checks import c02

PROP = "C03"
FAMS = {"id": 120, "elementwise": 90, "reduce": 90, "dot": 60, "get_at": 60, "preserve": 60, "argfind": 50, "update": 50}
THOROUGH_MULT = 10
FAMILIES = ["id", "elementwise", "reduce", "dot", "get_at", "update_at", "argfind", "preserve_shape"]
INTERNAL = ("AssertionError", "NameError", "KeyError", "IndexError", "AttributeError", "RecursionError", "UnboundLocalError", "NotImplementedError")
_NAME = re.compile(r"[a-zA-Z_][a-zA-Z0-9_]*")


def documented(e):
    import einx

    ok = (einx.errors.SyntaxError, einx.errors.RankError, einx.errors.AxisSizeError, einx.errors.SemanticError, einx.errors.OperationNotSupportedError, einx.errors.BackendResolutionError, ValueError, TypeError)
    return isinstance(e, ok)


def mixed_bracket_use(desc):
    """einx's stated bracket rule (tutorial + parse_op): an axis name is used either inside brackets or outside
    brackets in one description, never both. Own tokenisation; None when brackets are unbalanced."""
    depth = 0
    marked, unmarked = set(), set()
    i = 0
    while i < len(desc):
        ch = desc[i]
        if ch == "[":
            depth += 1
        elif ch == "]":
            depth -= 1
            if depth < 0:
                return None
        m = _NAME.match(desc, i)
        if m:
            (marked if depth > 0 else unmarked).add(m.group(0))
            i = m.end()
            continue
        i += 1
    if depth != 0:
        return None
    return bool(marked & unmarked)


def implicit_output_candidates(ins):
    """Documented rule, own computation: number of DISTINCT input expressions whose axis names (every named axis,
    every number other than 1 as an axis of its own) include those of all other inputs."""
    from vlib.desc import show_expr

    def names(e):
        out = set()
        for it in c02.walk(e):
            if isinstance(it, Ax):
                out.add(it.name)
            elif isinstance(it, Num) and it.size != 1:
                out.add(("num", it.uid))
        return out

    def canon(e):
        # per dimension the ordered leaf names: redundant parentheses ('(f)' vs '((f))') do not make two candidates
        out = []
        for it in expand(e):
            leafs = []
            for x in c02.walk((it,)):
                if isinstance(x, Ax):
                    leafs.append(x.name)
                elif isinstance(x, Num):
                    leafs.append(("num", x.uid if x.size != 1 else 1))
            out.append(tuple(leafs))
        return tuple(out)

    sets = [names(e) for e in ins]
    cands = {canon(e) for i, e in enumerate(ins) if all(t <= sets[i] for j, t in enumerate(sets) if j != i)}
    return len(cands)


def corruptions(case, rng):
    """Yield (edit name, desc, shapes, kwargs, n_tensors_delta, adjudicable)."""
    desc = case["desc"]
    shapes = [tuple(shape(expand(e))) for e in case["ins"]]
    kw = dict(case["kwargs"])
    out = []
    ks = [i for i, s in enumerate(shapes) if len(s) > 0]
    if ks:
        i = rng.choice(ks)
        j = rng.randrange(len(shapes[i]))
        for nm, f in (("dim+1", lambda v: v + 1), ("dim*2", lambda v: v * 2), ("dim-1", lambda v: v - 1)):
            s = list(shapes[i])
            s[j] = f(s[j])
            if s[j] >= 1 and tuple(s) != shapes[i]:
                sh = list(shapes)
                sh[i] = tuple(s)
                out.append((nm, desc, sh, kw, True))
        s0 = list(shapes[i])
        s0[j] = 0
        sh = list(shapes)
        sh[i] = tuple(s0)
        out.append(("dim->0", desc, sh, kw, True))
        sh = list(shapes)
        sh[i] = shapes[i] + (2,)
        out.append(("rank+1", desc, sh, kw, True))
        sh = list(shapes)
        sh[i] = shapes[i][:-1]
        out.append(("rank-1", desc, sh, kw, True))
    if kw:
        k = rng.choice(sorted(kw))
        kw2 = dict(kw)
        kw2.pop(k)
        out.append(("kw-removed", desc, shapes, kw2, True))
        kw3 = dict(kw)
        v = kw3[k]
        kw3[k] = tuple(x + 1 for x in v) if isinstance(v, tuple) else v + 1
        out.append(("kw-contradicted", desc, shapes, kw3, True))
    # a size given as bool where the valid call gives the integer 1 / 0 (True == 1 and hash(True) == hash(1)): the valid
    # call runs first, the ill-typed one must still be rejected
    ones = [k for k, v in kw.items() if isinstance(v, int) and not isinstance(v, bool) and v in (0, 1)]
    if ones:
        k = rng.choice(sorted(ones))
        kwb = dict(kw)
        kwb[k] = bool(kw[k])
        out.append(("size-bool-after-equal-int", desc, shapes, kwb, "bool-size"))
    # argument count
    if len(shapes) >= 1:
        out.append(("tensor-removed", desc, shapes[:-1], kw, "count"))
        out.append(("tensor-added", desc, shapes + [shapes[-1]], kw, "count"))
    # string-level edits: one axis dropped / duplicated / renamed, one bracket moved
    names = [(m.start(), m.end(), m.group(0)) for m in _NAME.finditer(desc)]
    if names:
        a, b, nm = rng.choice(names)
        out.append(("axis-dropped", desc[:a] + desc[b:], shapes, kw, False))
        out.append(("axis-duplicated", desc[:b] + " " + nm + desc[b:], shapes, kw, False))
        out.append(("axis-renamed", desc[:a] + "zz" + desc[b:], shapes, kw, False))
        out.append(("bracket-added", desc[:a] + "[" + nm + "]" + desc[b:], shapes, kw, False))
    if "[" in desc:
        i = desc.index("[")
        j = desc.index("]", i)
        out.append(("bracket-removed", desc[:i] + desc[i + 1 : j] + desc[j + 1 :], shapes, kw, False))
        out.append(("bracket-unclosed", desc[:j] + desc[j + 1 :], shapes, kw, False))
    # one bracket moved by one item; a bracketed axis additionally kept un-bracketed
    moved = [(m, "left") for m in re.finditer(r"([A-Za-z_]\w*(?:\.\.\.)?) \[", desc)] + [(m, "right") for m in re.finditer(r"\] ([A-Za-z_]\w*(?:\.\.\.)?)", desc)]
    if moved:
        m, side = rng.choice(moved)
        if side == "left":
            out.append(("bracket-moved-left", desc[: m.start()] + "[" + m.group(1) + " " + desc[m.end() :], shapes, kw, False))
        else:
            out.append(("bracket-moved-right", desc[: m.start()] + " " + m.group(1) + "]" + desc[m.end() :], shapes, kw, False))
    inside = [m.group(1) for m in re.finditer(r"\[([^\[\]]*)\]", desc)]
    inside_names = [n for txt in inside for n in _NAME.findall(txt)]
    if inside_names and "->" in desc:
        out.append(("bracketed-axis-kept-in-output", desc + " " + rng.choice(inside_names), shapes, kw, False))
    if inside_names:
        n0 = rng.choice(inside_names)
        out.append(("bracketed-axis-also-first", n0 + " " + desc, shapes, kw, False))
    # element-wise shorthand without '->': the output is the input that contains all axes IF THAT CHOICE IS UNIQUE
    if case["family"] == "elementwise":
        from vlib.desc import show_expr

        ins = list(case["ins"])
        # one operand too many for an operation of fixed arity (the extra one has the output's expression: for a
        # numpy ufunc a further positional array is its out= buffer)
        lo, hi = family.ELEMENTWISE_ARITY[case["op"]]
        if lo == hi == len(ins):
            e_out = case["outs"][0]
            out.append(("operand-added", ", ".join(show_expr(e) for e in ins + [e_out]) + " -> " + show_expr(e_out), shapes + [tuple(shape(expand(e_out)))], kw, "count"))
        if "->" in desc:
            verdict = implicit_output_candidates(ins)
            out.append(("output-removed", ", ".join(show_expr(e) for e in ins), shapes, kw, "ambiguous" if verdict != 1 else False))
        cand = [e for e in ins if len(e) >= 2 and tuple(reversed(e)) != tuple(e) and not any(isinstance(x, (Ell, Cat)) for x in c02.walk(e))]
        if cand and len(ins) <= 2 and case["op"] != "where":
            e = rng.choice(cand)
            e2 = tuple(reversed(e))
            ins2 = [e, e2]
            if implicit_output_candidates(ins2) >= 2:
                out.append(("ambiguous-implicit-output", ", ".join(show_expr(x) for x in ins2), [tuple(shape(expand(x))) for x in ins2], kw, "ambiguous"))
    if "->" in desc:
        out.append(("arrow-doubled", desc.replace("->", "-> ->", 1), shapes, kw, False))
    if "(" in desc:
        i = desc.index("(")
        out.append(("paren-unclosed", desc[:i] + desc[i + 1 :].replace(")", "", 0) if False else desc[:i + 1] + "(" + desc[i + 1 :], shapes, kw, False))
    return out


def infeasible(case, shapes, kw, timeout_ms):
    """z3: no positive-integer assignment satisfies the (structurally unchanged) description with these
    shapes and keyword sizes. Returns True / False / None (unknown)."""
    exprs = tuple(case["ins"]) + tuple(case["outs"])
    if len(shapes) != len(case["ins"]):
        return None
    shp = list(shapes) + [None] * len(case["outs"])
    try:
        vecs, ell_names = axes.count_vectors(exprs, shp, kw)
        for counts in vecs:
            sysk = axes.System(exprs, shp, kw, counts, ell_names)
            if not sysk.ok:
                continue
            r = str(sysk.solver(timeout_ms).check())
            if r == "sat":
                return False
            if r == "unknown":
                return None
    except NotImplementedError:
        return None
    return True


def work(item):
    case, seed, timeout_ms = item
    import einx

    rng = random.Random(f"{seed}:{case['op']}:{case['desc']}")
    results = []
    for edit, desc, shapes, kw, adjud in corruptions(case, rng):
        kinds = list(case["kinds"])
        while len(kinds) < len(shapes):
            kinds.append(kinds[-1] if kinds else "int")
        arrs = [S.fresh(f"t{i}", s, "bool" if k == "bool" else "int") for i, (s, k) in enumerate(zip(shapes, kinds))]
        if adjud == "bool-size":
            try:
                getattr(einx, case["op"])(desc, *[S.wrap(S.plain(a).copy()) for a in arrs], **case["kwargs"], **case["opts"])
            except Exception:  # noqa: BLE001
                pass
        S.DISPATCH["n"] = 0
        r = {"edit": edit, "op": case["op"], "desc": desc, "shapes": [list(s) for s in shapes], "kwargs": runner.jsonable(kw)}
        if adjud == "bool-size":
            r["warm_kwargs"] = runner.jsonable(case["kwargs"])
        try:
            getattr(einx, case["op"])(desc, *arrs, **kw, **case["opts"])
            r["outcome"] = "returned"
        except Exception as e:  # noqa: BLE001
            r["outcome"] = type(e).__name__
            r["documented"] = documented(e)
            r["dispatch_before_exception"] = S.DISPATCH["n"]
            r["msg"] = str(e).splitlines()[0][:160] if str(e) else ""
            if type(e).__name__ == "CallOperationError":
                c = e.__cause__
                r["cause"] = type(c).__name__
                if isinstance(c, S.UnmodelledPrimitive):
                    r["status"] = "unmodelled"
                    results.append(r)
                    continue
        ill = None
        if adjud is True:
            ill = infeasible(case, shapes, kw, timeout_ms)
        elif adjud == "count":
            ill = True
        elif adjud in ("ambiguous", "bool-size"):
            ill = True
        elif mixed_bracket_use(desc):
            ill, adjud = True, "bracket-rule"
        r["ill_formed"] = ill
        st = "holds"
        if r["outcome"] in INTERNAL or (r["outcome"] == "CallOperationError" and r.get("cause") in INTERNAL):
            st, r["kind"] = "violation?", "internal-exception"
        elif r["outcome"] not in ("returned",) and r.get("dispatch_before_exception", 0) > 0 and ill is not False:
            st, r["kind"] = "violation?", "backend-computation-before-rejection"
        elif ill is True and r["outcome"] == "returned":
            st, r["kind"] = "violation?", "accepted-but-no-assignment-exists" if adjud is True else ("accepted-although-axis-is-bracketed-and-unbracketed" if adjud == "bracket-rule" else "accepted-although-implicit-output-is-not-unique" if adjud == "ambiguous" else "accepted-bool-as-size-after-equal-int" if adjud == "bool-size" else "accepted-with-wrong-argument-count")
            if adjud is True:
                m = {"exprs": tuple(case["ins"]) + tuple(case["outs"]), "shapes": list(shapes) + [None] * len(case["outs"]), "kwargs": kw}
                r["cse_relaxation_feasible"] = c02.relaxation_feasible(m, timeout_ms)
        elif ill is True and not r.get("documented", False):
            st, r["kind"] = "violation?", f"undocumented-exception-class:{r['outcome']}"
        elif r["outcome"] != "returned" and not r.get("documented", False) and r["outcome"] != "CallOperationError":
            st, r["kind"] = "violation?", f"undocumented-exception-class:{r['outcome']}"
        elif ill is None and adjud is True:
            st = "inconclusive"
        r["status"] = st
        if st == "violation?":
            path = write_replay(case, r, kinds)
            ok, out = replay.run_script(path)
            r["replay"], r["replay_out"] = path, out[-1000:]
            r["status"] = "violation" if ok else "not-reproduced"
        results.append(r)
    return {"status": "done", "results": results}


REPLAY = r'''#!/venv/bin/python
"""Replay (C03): a single-edit corruption of a valid einx call on plain numpy arrays."""
import itertools, json, sys
sys.path.insert(0, "/repo")
import numpy as np
import einx
SPEC = json.loads(r"""{spec}""")
def tup(v): return tuple(tup(x) for x in v) if isinstance(v, list) else v
args = [np.zeros(s, dtype=(bool if k == "bool" else np.int64)) for s, k in zip(SPEC["shapes"], SPEC["kinds"])]
kw = {{k: tup(v) for k, v in SPEC["kwargs"].items()}}
print("call: einx.%s(%r, shapes=%r, **%r)   [edit: %s]" % (SPEC["op"], SPEC["desc"], SPEC["shapes"], kw, SPEC["edit"]))
INTERNAL = {internal!r}
if SPEC.get("warm_kwargs") is not None:
    try:
        getattr(einx, SPEC["op"])(SPEC["desc"], *args, **{{k: tup(v) for k, v in SPEC["warm_kwargs"].items()}})
        print("earlier valid call with %r: ok" % (SPEC["warm_kwargs"],))
    except Exception as e:
        print("earlier call raised", type(e).__name__)
try:
    r = getattr(einx, SPEC["op"])(SPEC["desc"], *args, **kw)
    out = ("returned", [list(np.shape(x)) for x in (r if isinstance(r, (tuple, list)) else [r])])
except Exception as e:
    cause = type(e.__cause__).__name__ if e.__cause__ is not None else None
    out = (type(e).__name__, cause, str(e).splitlines()[0][:200] if str(e) else "")
print("einx ->", out)
kind = SPEC["kind"]
if kind == "internal-exception":
    if out[0] in INTERNAL or (out[0] == "CallOperationError" and out[1] in INTERNAL):
        print("REPRODUCED: internal exception type %s" % (out[0] if out[0] in INTERNAL else out[1])); sys.exit(1)
elif kind == "backend-computation-before-rejection":
    if out[0] == "CallOperationError":
        print("REPRODUCED: the call was not rejected up front: generated code ran and failed (%s)" % out[1]); sys.exit(1)
elif kind.startswith("undocumented-exception-class"):
    doc = ("SyntaxError", "RankError", "AxisSizeError", "SemanticError", "OperationNotSupportedError", "BackendResolutionError", "ValueError", "TypeError")
    if out[0] != "returned" and out[0] not in doc:
        print("REPRODUCED: rejected with undocumented class %s" % out[0]); sys.exit(1)
elif kind == "accepted-with-wrong-argument-count":
    if out[0] == "returned":
        print("REPRODUCED: call with a wrong number of tensors returned a value"); sys.exit(1)
elif kind == "accepted-although-axis-is-bracketed-and-unbracketed":
    if out[0] == "returned":
        print("REPRODUCED: einx computed a result (shapes %r) for a description that uses an axis name both inside and outside of brackets" % (out[1],)); sys.exit(1)
elif kind == "accepted-bool-as-size-after-equal-int":
    if out[0] == "returned":
        print("REPRODUCED: a bool given as axis size was accepted (after a valid call with the equal integer)"); sys.exit(1)
elif kind == "accepted-although-implicit-output-is-not-unique":
    if out[0] == "returned":
        print("REPRODUCED: einx computed a result (shapes %r) for an element-wise call without '->' in which no input, or more than one, contains all axes" % (out[1],)); sys.exit(1)
elif kind == "accepted-but-no-assignment-exists":
    if out[0] == "returned":
        print("REPRODUCED: einx computed a result (shapes %r) although z3 shows that no assignment of positive integers satisfies the description for these shapes/sizes" % (out[1],)); sys.exit(1)
print("NOT-REPRODUCED"); sys.exit(0)
'''


def write_replay(case, r, kinds):
    import hashlib

    spec = {"op": case["op"], "desc": r["desc"], "shapes": r["shapes"], "kinds": kinds[: len(r["shapes"])], "kwargs": dict(r["kwargs"], **runner.jsonable(case["opts"])), "edit": r["edit"], "kind": r["kind"], "warm_kwargs": (dict(r["warm_kwargs"], **runner.jsonable(case["opts"])) if r.get("warm_kwargs") is not None else None)}
    text = json.dumps(runner.jsonable(spec))
    os.makedirs(os.path.join(runner.REPLAY_DIR, PROP), exist_ok=True)
    path = os.path.join(runner.REPLAY_DIR, PROP, "edit_" + hashlib.sha1(text.encode()).hexdigest()[:12] + ".py")
    with open(path, "w") as f:
        f.write(REPLAY.format(spec=text, internal=INTERNAL))
    return path


PROBE_REPLAY = r'''#!/venv/bin/python
"""Replay (C03): a solve_* / matches / operation call on a description built from groups, numbers and ellipses."""
import sys
sys.path.insert(0, "/repo")
import numpy as np
import einx
api, desc, shape = {api!r}, {desc!r}, {shape!r}
try:
    r = getattr(einx, api)(desc, np.zeros(shape))
    print("einx.%s(%r, zeros%r) ->" % (api, desc, shape), r if not hasattr(r, "shape") else ("array", r.shape))
    print("NOT-REPRODUCED"); sys.exit(0)
except Exception as e:
    print("einx.%s(%r, zeros%r) raised %s: %s" % (api, desc, shape, type(e).__name__, str(e).splitlines()[0][:200] if str(e) else ""))
    if type(e).__name__ in {internal!r}:
        print("REPRODUCED: internal exception type"); sys.exit(1)
print("NOT-REPRODUCED"); sys.exit(0)
'''


def structure_probes():
    """Descriptions over groups, numbers, concatenations and ellipses of NUMBERS (sizes known from the text alone),
    through the solve_* API and einx.id: whatever the verdict, no internal exception type may come out."""
    out = []
    inners = [("2 3", 6), ("2 + 3", 5), ("2", 2), ("(2 3)", 6), ("2 (1 + 1)", 4), ("3 1", 3)]
    for inner, val in inners:
        for n in (0, 1, 2):
            tot = val**n
            forms = [(f"({inner}...)", (tot,)), (f"({inner}...) a", (tot, 2)), (f"(a {inner}...)", (2 * tot,)), (f"a ({inner}...)", (2, tot)), (f"(({inner})...)", (tot,)), (f"({inner}... + a)", (tot + 1,))]
            for desc, shp in forms:
                for api in ("solve_shapes", "solve_axes", "matches"):
                    out.append((api, desc, shp))
                out.append(("id", desc + " -> " + desc, shp))
    return out


def work_probe(item):
    import einx

    api, desc, shp = item
    try:
        getattr(einx, api)(desc, np.zeros(shp))
        return {"outcome": "returned"}
    except Exception as e:  # noqa: BLE001
        name = type(e).__name__
        cause = type(e.__cause__).__name__ if e.__cause__ is not None else None
        bad = name in INTERNAL or (name == "CallOperationError" and cause in INTERNAL)
        res = {"outcome": name, "internal": bad}
        if bad:
            import hashlib

            os.makedirs(os.path.join(runner.REPLAY_DIR, PROP), exist_ok=True)
            path = os.path.join(runner.REPLAY_DIR, PROP, "probe_" + hashlib.sha1(repr(item).encode()).hexdigest()[:12] + ".py")
            with open(path, "w") as f:
                f.write(PROBE_REPLAY.format(api=api, desc=desc, shape=tuple(shp), internal=INTERNAL))
            ok, out = replay.run_script(path)
            res["replay"], res["replay_out"], res["reproduced"] = path, out[-500:], ok
        return res


def main():
    tier, seed = runner.tier(), runner.seed()
    rep = runner.Report(PROP, "other")
    # layer 1 in the background
    if tier == "quick":
        mod = xgen.parser_module("c03_entry_k3", "TOK13", 13, 3, "entry", fixed=1, families=FAMILIES)
        pool = xhair.start_many([(mod, 200)], max_parallel=max(2, runner.nprocs() // 2))
    else:
        mod = xgen.parser_module("c03_entry_k4", "TOK13", 13, 4, "entry", fixed=2, families=FAMILIES)
        pool = xhair.start_many([(mod, 1500)], max_parallel=max(2, runner.nprocs() // 2))
    mult = THOROUGH_MULT if tier == "thorough" else 1
    timeout_ms = 20000 if tier == "thorough" else 6000
    items = [(c, seed, timeout_ms) for fam, n in FAMS.items() for c in family.generate(fam, n * mult, seed + 3, tier)]
    results = runner.pmap(work, items, procs=max(2, runner.nprocs() // 2), chunksize=4)
    probes = structure_probes()
    probe_results = runner.pmap(work_probe, probes, procs=max(2, runner.nprocs() // 2), chunksize=8)
    probe_outcomes = collections.Counter()
    for pr, r in zip(probes, probe_results):
        if r.get("status") == "harness-error":
            rep.harness_error(f"{r.get('error')} {r.get('trace', '')[-400:]}")
            continue
        probe_outcomes[r["outcome"]] += 1
        if r.get("internal"):
            if r.get("reproduced"):
                rep.violation({"layer": "probe", "api": pr[0], "desc": pr[1], "outcome": r["outcome"]}, r["replay"], f"einx.{pr[0]}({pr[1]!r}, zeros{tuple(pr[2])}): internal exception type {r['outcome']}\n{r.get('replay_out', '')[-300:]}")
            else:
                rep.harness_error(f"probe finding did not reproduce: {pr} {r.get('replay_out', '')[-200:]}")
    status = collections.Counter()
    by_edit = collections.defaultdict(collections.Counter)
    outcomes = collections.Counter()
    samples, nontrivial = [], set()
    n = 0
    for (case, _, _), wr in zip(items, results):
        if wr.get("status") == "harness-error":
            rep.harness_error(f"{wr.get('error')} {wr.get('trace', '')[-800:]}")
            continue
        for r in wr["results"]:
            n += 1
            st = r["status"]
            status[st] += 1
            by_edit[r["edit"]][st] += 1
            outcomes[(r["edit"], r["outcome"])] += 1
            if st == "holds":
                if r.get("ill_formed") is True and r["outcome"] != "returned":
                    nontrivial.add((r["op"], r["desc"], str(r["shapes"]), str(r["kwargs"])))
                    if len(samples) < 10 and by_edit[r["edit"]]["holds"] <= 2:
                        samples.append({"edit": r["edit"], "call": f"einx.{r['op']}({r['desc']!r}, shapes={r['shapes']}, **{r['kwargs']})", "z3": "no assignment exists" if r["edit"] not in ("tensor-removed", "tensor-added") else "argument count", "einx": r["outcome"], "numpy_dispatches_before_exception": r.get("dispatch_before_exception")})
            elif st == "violation":
                sig = {"layer": 2, "edit": r["edit"], "op": r["op"], "desc": r["desc"], "shapes": r["shapes"], "kind": r["kind"], "cse_relaxation_feasible": r.get("cse_relaxation_feasible")}
                # mechanism field (known_findings.json): *_at returns its first argument when a coordinate/update tensor is empty
                tgt_names = _NAME.findall(r["desc"].split(",")[0])
                sig["update_target_with_repeated_axis_fails_at_run_time"] = bool(r["op"] in family.UPDATE and r["kind"] == "backend-computation-before-rejection" and len(tgt_names) != len(set(tgt_names)))
                sig["zero_sized_coordinates_or_updates_of_an_update_op"] = bool(r["op"] in family.UPDATE and r["outcome"] == "returned" and any(0 in s_ for s_ in r["shapes"][1:]) and 0 not in r["shapes"][0])
                rep.violation(sig, r["replay"], f"[{r['edit']}] einx.{r['op']}({r['desc']!r}, shapes={r['shapes']}, **{r['kwargs']}): {r['kind']}; einx -> {r['outcome']} {r.get('msg', '')}\n{r.get('replay_out', '')[-300:]}")
            elif st == "not-reproduced":
                rep.harness_error(f"C03 finding did not reproduce: [{r['edit']}] {r['op']} {r['desc']!r} {r['shapes']} kind={r.get('kind')} {r.get('replay_out', '')[-300:]}")
            else:
                rep.inconclusive.append({"why": st, "edit": r["edit"], "call": f"{r['op']}({r['desc']!r})"})
    # layer 1 results
    xres = xhair.finish(pool)
    xv = collections.Counter()
    sys.path.insert(0, "/verif/xh")
    import c12_lib as L
    from checks.c12 import text_of_call

    for c in xres["conditions"]:
        v = c["verdict"]
        xv[v] += 1
        if v == "confirmed":
            nontrivial.add(("crosshair", c["name"]))
        elif v == "counterexample":
            mm = re.match(r"cond_entry_(\w+?)_k(\d+)_t([\d_]*)$", c["name"])
            fam = mm.group(1)
            firsts = [int(x) for x in mm.group(3).split("_") if x]
            m2 = re.search(r"\((.*)\)$", c.get("call") or "")
            ints = [int(x) for x in re.findall(r"-?\d+", m2.group(1))] if m2 else []
            idx = firsts + ints[: int(mm.group(2)) - len(firsts)]
            text = "".join(L.TOK13[i] for i in idx) if all(0 <= i < 13 for i in idx) else None
            path_r = xhair.write_replay(PROP, c)
            ok, out = replay.run_script(path_r, python=replay.VENV_PY)
            if not ok:
                rep.harness_error(f"CrossHair counterexample did not reproduce: {c['name']} {c['call']} {out[-300:]}")
                continue
            d = L.diagnose_entry(fam, text) if text is not None else {}
            sig = {"layer": 1, "family": fam, "text": text, "outcome": d.get("outcome"), "quoted_has_brace": d.get("quoted_has_brace", False)}
            rep.violation(sig, path_r, f"pre-solve stage of {fam} on {text!r}: {c['message'][-300:]}")
        else:
            rep.inconclusive.append({"why": "crosshair " + v, "condition": c["name"], "message": c["message"][-200:]})
    rep.coverage = {
        "explanation": "Layer 1: CrossHair over the real pre-solve stage of 8 operation families on token sequences; layer 2: single-edit corruptions of valid family members, ill-formedness adjudicated by z3 (feasibility of the constraint system) or by argument count; layer 3: numpy dispatch counter of the SymArray inputs at the time the exception surfaces.",
        "evaluations": n + len(xres["conditions"]),
        "distinct_nontrivial": len(nontrivial),
        "rule": "layer 2: one evaluation = (family member, edit); non-trivial = z3 certified the corrupted call ill-formed and einx raised a documented class with zero numpy dispatches; layer 1: one CrossHair condition, non-trivial = 'Confirmed over all paths'",
        "samples": samples,
        "layer2_status_counts": dict(status),
        "layer2_by_edit": {k: dict(v) for k, v in by_edit.items()},
        "layer2_outcomes": {f"{a}:{b}": v for (a, b), v in sorted(outcomes.items())},
        "layer1_crosshair": {"verdicts": dict(xv), "conditions": len(xres["conditions"]), "wall_s": xres["wall_s"]},
        "bounds": {"layer1": "13 tokens ^ 3 (quick) / ^ 4 (thorough) x 8 families; the path is cut where the sympy-backed solver would start", "layer2": "one edit per call; family bounds as C01"},
        "internal_exception_types": list(INTERNAL),
    }
    rep.assumptions = [
        "layer 1 stubs einx_from_namedtensor.solve with a sentinel (malformed strings are not pushed through stages 2-4 symbolically)",
        "for string-level edits only 'no internal exception type' and 'no computation before rejection' are demanded (whether the edited string is still well-formed is not adjudicated)",
        "under-determined (feasible but ambiguous) corrupted calls are not demanded to fail: einx may legitimately leave unused sub-axes unresolved",
    ]
    rep.finish()


if __name__ == "__main__":
    main()
