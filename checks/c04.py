"""C04 — generated source is a faithful, self-contained compilation of the traced graph.

For every compilation (captured from real calls of all operation families, adapters and factories, and for
seeded random graphs over all IR node types built with einx's real constructors) three results on the same
SymArrays are compared by z3 for all contents: R1 = the function object einx caches and calls, R2 = the
returned text exec()'d in a namespace holding only the constants named in its header, R3 = an independent
node-by-node interpretation of the graph. Also: function.__code__ == code object of the text; graph=True
returns that text. See DESIGN.md §3 C04.
"""

import collections
import re
import random

import numpy as np
import z3

from vlib import family, graphs, harness, prove, replay, runner, selftest, symarray as S
from vlib.desc import expand, shape

BUDGET = runner.ReplayBudget(12)
PROP = "C04"
FAMS = {"id": 70, "elementwise": 60, "reduce": 50, "dot": 40, "get_at": 40, "preserve": 40, "argfind": 30, "update": 60}
N_RANDOM = {"quick": 400, "thorough": 6000}
MAX_NODES = {"quick": 12, "thorough": 25}
THOROUGH_MULT = 10
ADAPTER_OPTIONS = [1.0, 2.0, 3.0, 4.0, 6.0, 0.0, -0.0, 1, 2, 3, True, False, 2.5]
_CONST = re.compile(r"^# Constant (const\d+):", re.M)


def exec_text(code, function):
    """exec() the returned text in a namespace with only the constants named in its header comments."""
    names = _CONST.findall(code)
    ns = {}
    for n in names:
        if n not in function.__globals__:
            raise KeyError(f"constant {n} named in header but not bound")
        ns[n] = function.__globals__[n]
    exec(code, ns, ns)  # noqa: S102 - that is the property
    return ns[function.__name__], names


class Raised:
    def __init__(self, name):
        self.name = name


def copies(arrs):
    return [S.wrap(S.plain(a).copy()) if isinstance(a, np.ndarray) else a for a in arrs]


def tolist(out):
    return [S.plain(harness.wrapnd(o)) for o in harness.as_list(out)]


def compare_triple(rec, args, assumptions, timeout_ms, check_side_effects=True):
    """Returns (status, detail, solver seconds)."""
    fn, code, graph = rec["function"], rec["code"], rec["graph"]
    problems = []
    try:
        f2, names = exec_text(code, fn)
    except Exception as e:  # noqa: BLE001
        return "violation?", [f"text does not execute stand-alone: {type(e).__name__}: {e}"], 0.0, None
    if f2.__code__ != fn.__code__:
        problems.append("code object of the cached function differs from the compiled text")
    a1, a2, a3 = copies(args), copies(args), copies(args)
    graphs.TICK.reset()
    try:
        r1 = fn(*a1)
    except S.UnmodelledPrimitive:
        return "unmodelled", [], 0.0, None
    except Exception as e:  # noqa: BLE001
        r1 = Raised(type(e).__name__)
    n1 = graphs.TICK.n
    graphs.TICK.reset()
    try:
        r2 = f2(*a2)
    except Exception as e:  # noqa: BLE001
        r2 = Raised(type(e).__name__)
    n2 = graphs.TICK.n
    graphs.TICK.reset()
    try:
        r3 = graphs.Interp().run_graph(graph, a3) if isinstance(graph, graphs.tr().Graph) else None
    except S.UnmodelledPrimitive:
        r3 = None
    except Exception as e:  # noqa: BLE001
        r3 = Raised(type(e).__name__)
    n3 = graphs.TICK.n
    if not isinstance(r1, Raised) and not isinstance(r2, Raised) and n1 != n2:
        problems.append(f"the counting constant is called {n1} time(s) by the function and {n2} time(s) by the stand-alone text")
    if r3 is not None and not isinstance(r1, Raised) and not isinstance(r3, Raised) and n1 != n3:
        problems.append(f"the counting constant is called {n1} time(s) by the generated code but the graph applies it {n3} time(s) (a shared node evaluated more than once, or dropped)")
    total = 0.0
    model = None
    raised = [isinstance(r, Raised) for r in (r1, r2, r3)]
    if any(raised):
        kinds = {r.name if ra else "ok" for r, ra in zip((r1, r2, r3), raised) if r is not None}
        if len(kinds) > 1:
            problems.append(f"outcomes differ: function={r1.name if raised[0] else 'ok'} text={r2.name if raised[1] else 'ok'} graph={r3.name if raised[2] else 'ok'}")
        return ("violation?" if problems else "holds-raise"), problems, 0.0, None
    pairs = [("function vs text", r1, r2)]
    if r3 is not None:
        pairs.append(("function vs graph interpretation", r1, r3))
    for name, x, y in pairs:
        try:
            lx, ly = tolist(x), tolist(y)
            if len(lx) != len(ly):
                raise prove.ShapeMismatch(len(lx), len(ly))
            v, m, dt = prove.prove_equal(list(zip(lx, ly)), assumptions, timeout_ms)
        except prove.ShapeMismatch as e:
            v, m, dt = "sat", None, 0.0
        total += dt
        if v == "sat":
            problems.append(f"{name}: results differ")
            model = model or m
        elif v == "unknown":
            return "unknown", problems, total, None
    if check_side_effects:
        try:
            v, m, dt = prove.prove_equal([(S.plain(x), S.plain(y)) for x, y in zip(a1, a2) if isinstance(x, np.ndarray)], assumptions, timeout_ms)
            total += dt
            if v == "sat":
                problems.append("side effects on the arguments differ between function and text")
                model = model or m
        except prove.ShapeMismatch:
            problems.append("argument shapes changed")
    return ("violation?" if problems else "holds"), problems, total, model


def work_captured(item):
    case, timeout_ms, variant = item
    import einx

    arrs = harness.build_inputs(case)
    res = {"kind": "captured", "op": case["op"], "desc": case["desc"], "variant": variant}
    kw = dict(case["kwargs"])
    kw.update(case["opts"])
    call_args = copies(arrs)
    fn = getattr(einx, case["op"])
    if variant == "adapter":
        from checks import c15

        log = []
        # the option is a literal of the generated code: ints, floats equal to ints that occur in shapes, bools, signed zero
        opt = random.Random(case["desc"]).choice(ADAPTER_OPTIONS)
        kw["scale"] = opt
        res["option"] = repr(opt)
        fn = einx.numpy.adapt_numpylike_reduce(c15.make_reduce(log, True)) if case["family"] == "reduce" else einx.numpy.adapt_numpylike_elementwise(c15.make_elementwise(log, len(arrs), True))
    if variant == "factory":
        i = len(arrs) - 1 if case["family"] != "update" else len(arrs) - 1
        t = arrs[i]
        call_args[i] = lambda shape: S.wrap(S.plain(t).copy())
        try:
            kw = dict(family.make_kwargs(random.Random(0), list(case["ins"]), list(case["outs"]), known_flags=[j != i for j in range(len(arrs))]), **case["opts"])
        except ValueError:
            res["status"] = "skipped"
            return res
        kw["backend"] = "numpy"
    with graphs.Capture() as cap:
        try:
            text = fn(case["desc"], *call_args, graph=True, **kw)
        except Exception as e:  # noqa: BLE001
            res["status"] = harness.classify_exception(e)
            if "failed to compile" in str(e):
                res["status"], res["problems"] = "violation?", ["the generated code does not compile: " + str(e).splitlines()[-1][:200]]
            return res
    if not cap.records:
        res["status"] = "cache-hit"  # compiled earlier in this worker: nothing new to compare
        return res
    rec = cap.records[-1]
    problems = []
    if text != rec["code"]:
        problems.append("graph=True text differs from the compiled text")
    st, pr, dt, model = compare_triple(rec, call_args, harness.coord_assumptions(case, arrs), timeout_ms)
    problems += pr
    res["solver_s"] = dt
    res["node_types"] = graphs.node_types(rec["graph"]) if isinstance(rec["graph"], graphs.tr().Graph) else []
    res["status"] = "violation?" if problems else st
    res["problems"] = problems
    res["code"] = rec["code"]
    return res


def work_random(item):
    seed, max_nodes, timeout_ms = item
    tracer = graphs.tr()
    graph, shapes, desc = graphs.build_random_graph(seed, max_nodes)
    res = {"kind": "random", "seed": seed, "constructs": sorted(set(desc))}
    try:
        fn, code = tracer.compiler.python.compile(graph, return_code=True)
    except Exception as e:  # noqa: BLE001
        res["status"] = "compile-error"
        res["error"] = f"{type(e).__name__}: {str(e)[:600]}"
        return res
    rec = {"function": fn, "code": code, "graph": graph}
    args = [S.fresh(f"x{i}", s) for i, s in enumerate(shapes)]
    st, pr, dt, model = compare_triple(rec, args, [], timeout_ms)
    res["status"], res["problems"], res["solver_s"] = st, pr, dt
    res["node_types"] = graphs.node_types(graph)
    res["code"] = code
    return res


def user_function(fam, c):
    """User functions with a visible constant factor: two adapted operations are told apart by it."""
    if fam == "reduce":
        return lambda x, axis: np.sum(x, axis=axis) * c
    return lambda *xs: sum(xs[1:], xs[0]) * c


def adapt(fam, c):
    import einx

    f = user_function(fam, c)
    return einx.numpy.adapt_numpylike_reduce(f) if fam == "reduce" else einx.numpy.adapt_numpylike_elementwise(f)


def work_sequence(item):
    """Compile A, compile B (each holds a different user function as its constant), and only then evaluate:
    A's cached function / text / graph, the public call of A again, then the same for B. A compilation must not
    depend on what was compiled after (or before) it."""
    cases, consts, timeout_ms = item
    res = {"kind": "sequence", "descs": [c["desc"] for c in cases], "consts": consts, "solver_s": 0.0}
    ops, arrs_all, recs = [], [], []
    for case, c in zip(cases, consts):
        op = adapt(case["family"], c)
        arrs = harness.build_inputs(case)
        kw = dict(case["kwargs"])
        with graphs.Capture() as cap:
            try:
                text = op(case["desc"], *copies(arrs), graph=True, **kw)
            except Exception as e:  # noqa: BLE001
                res["status"] = harness.classify_exception(e)
                return res
        if not cap.records:
            res["status"] = "cache-hit"
            return res
        rec = cap.records[-1]
        if text != rec["code"]:
            res["status"], res["problems"] = "violation?", ["graph=True text differs from the compiled text"]
            return res
        ops.append(op)
        arrs_all.append(arrs)
        recs.append(rec)
    problems = []
    for i in list(range(len(cases))) + [0]:
        case, c, rec, arrs = cases[i], consts[i], recs[i], arrs_all[i]
        assumptions = harness.coord_assumptions(case, arrs)
        st, pr, dt, _ = compare_triple(rec, copies(arrs), assumptions, timeout_ms)
        res["solver_s"] += dt
        if st in ("unknown", "unmodelled"):
            res["status"] = st
            return res
        problems += [f"[compilation {i}: {case['desc']!r} const factor {c}] {x}" for x in pr]
        # the public call (cache hit) against the loop-notation meaning of the user function
        try:
            out = ops[i](case["desc"], *copies(arrs), **case["kwargs"])
            ref = [np.asarray(r, dtype=object) * c for r in harness.reference(dict(case, op="sum" if case["family"] == "reduce" else "add"), arrs)]
            v, _, dt = prove.prove_equal(list(zip(tolist(out), ref)), assumptions, timeout_ms)
            res["solver_s"] += dt
            if v == "sat":
                problems.append(f"[compilation {i}: {case['desc']!r} const factor {c}] public call after the other compilations does not compute the adapted function's meaning")
            elif v == "unknown":
                res["status"] = "unknown"
                return res
        except (prove.ShapeMismatch, S.UnmodelledPrimitive) as e:
            problems.append(f"[compilation {i}] {type(e).__name__}")
        except Exception as e:  # noqa: BLE001
            problems.append(f"[compilation {i}: {case['desc']!r}] public call raised {type(e).__name__}: {str(e)[:200]}")
    res["status"] = "violation?" if problems else "holds"
    res["problems"] = problems
    return res


SEQUENCE_REPLAY = r'''#!/venv/bin/python
"""Replay (C04): two adapted user functions (constants of two different compilations); the first operation is
called again after the second was compiled, on plain numpy."""
import json, sys
sys.path.insert(0, "/repo")
import numpy as np
import einx, einx.numpy
SPEC = json.loads(r"""{spec}""")
def tup(v): return tuple(tup(x) for x in v) if isinstance(v, list) else v
def user_function(fam, c):
    if fam == "reduce":
        return lambda x, axis: np.asarray(np.sum(x, axis=axis) * c)
    return lambda *xs: np.asarray(sum(xs[1:], xs[0]) * c)
ops, args, kws = [], [], []
for m in SPEC["members"]:
    f = user_function(m["family"], m["c"])
    ops.append(einx.numpy.adapt_numpylike_reduce(f) if m["family"] == "reduce" else einx.numpy.adapt_numpylike_elementwise(f))
    args.append([np.array(a["data"], dtype=np.int64).reshape(a["shape"]) for a in m["args"]])
    kws.append({{k: tup(v) for k, v in m["kwargs"].items()}})
bad = False
for i, m in enumerate(SPEC["members"]):
    print("compile+call #%d: adapted(%s, factor %d)(%r)" % (i, m["family"], m["c"], m["desc"]))
    ops[i](m["desc"], *args[i], **kws[i])
for i in list(range(len(ops))) + [0]:
    m = SPEC["members"][i]
    try:
        r = np.asarray(ops[i](m["desc"], *args[i], **kws[i])).tolist()
    except Exception as e:
        r = "raised %s" % type(e).__name__
    print("call #%d again -> %r; loop-notation meaning of the user function: %r" % (i, r, m["expected"]))
    bad |= r != m["expected"]
if bad:
    print("REPRODUCED: an adapted operation no longer computes its own user function after another one was compiled"); sys.exit(1)
print("NOT-REPRODUCED"); sys.exit(0)
'''


def expected_list(ref, c):
    r = np.asarray(ref, dtype=object)
    out = np.empty(r.shape, dtype=np.int64)
    for pos in np.ndindex(*r.shape):
        out[pos] = int(replay._val(r[pos])) * c
    return out.tolist()


def write_sequence_replay(cases, consts):
    import hashlib, json, os

    members = []
    for case, c in zip(cases, consts):
        conc = []
        for e in case["ins"]:
            sh = shape(expand(e))
            n = int(np.prod(sh)) if sh else 1
            conc.append((np.arange(n, dtype=np.int64) * 3 + 1).reshape(sh))
        ref = harness.reference(dict(case, op="sum" if case["family"] == "reduce" else "add"), [np.asarray(a, dtype=object) for a in conc])
        members.append({"family": case["family"], "c": c, "desc": case["desc"], "kwargs": runner.jsonable(case["kwargs"]), "args": [{"data": a.tolist(), "shape": list(a.shape)} for a in conc], "expected": expected_list(ref[0], c)})
    text = json.dumps({"members": members})
    os.makedirs(os.path.join(runner.REPLAY_DIR, PROP), exist_ok=True)
    path = os.path.join(runner.REPLAY_DIR, PROP, "sequence_" + hashlib.sha1(text.encode()).hexdigest()[:12] + ".py")
    with open(path, "w") as f:
        f.write(SEQUENCE_REPLAY.format(spec=text))
    return path


RANDOM_REPLAY = r'''#!/verif/.venv/bin/python
"""Replay (C04): seeded random graph, compiled by the real compiler, evaluated on plain numpy integers:
cached function vs stand-alone exec of the returned text vs node-by-node interpretation of the graph."""
import sys
sys.path.insert(0, "/verif"); sys.path.insert(0, "/repo")
import numpy as np
from vlib import graphs
from checks.c04 import exec_text
import einx._src.tracer as tracer
class CTick(graphs.Tick):
    def __call__(self, x):
        self.n += 1
        return x + 1000
graphs.TICK = CTick()
graph, shapes, desc = graphs.build_random_graph({seed}, {max_nodes})
fn, code = tracer.compiler.python.compile(graph, return_code=True)
print(code)
args = [np.arange(int(np.prod(s)), dtype=np.int64).reshape(s) * (i + 2) + i for i, s in enumerate(shapes)]
def run(f):
    graphs.TICK.reset()
    try:
        r = f(*[a.copy() for a in args])
        return [np.asarray(x).tolist() for x in (r if isinstance(r, (tuple, list)) else [r])] + ["counting constant called %d time(s)" % graphs.TICK.n]
    except Exception as e:
        return "raised " + type(e).__name__
r1 = run(fn)
f2, _ = exec_text(code, fn)
r2 = run(f2)
r3 = run(lambda *a: graphs.Interp().run_graph(graph, list(a)))
print("function:", r1); print("text    :", r2); print("graph   :", r3)
if not (r1 == r2 == r3) or f2.__code__ != fn.__code__:
    print("REPRODUCED: compiled function, returned text and traced graph disagree"); sys.exit(1)
print("NOT-REPRODUCED"); sys.exit(0)
'''


def write_random_replay(seed, max_nodes):
    import os

    os.makedirs(os.path.join(runner.REPLAY_DIR, PROP), exist_ok=True)
    path = os.path.join(runner.REPLAY_DIR, PROP, f"random_{seed}_{max_nodes}.py")
    with open(path, "w") as f:
        f.write(RANDOM_REPLAY.format(seed=seed, max_nodes=max_nodes))
    return path


CAPTURED_REPLAY = r'''#!/verif/.venv/bin/python
"""Replay (C04): a real einx call; the text returned with graph=True is exec()'d stand-alone and compared
with the function einx runs, on plain numpy integers."""
import json, os, re, sys
HASHSEED = "{hashseed}"
if os.environ.get("PYTHONHASHSEED") != HASHSEED:
    os.environ["PYTHONHASHSEED"] = HASHSEED
    os.execv(sys.executable, [sys.executable] + sys.argv)
sys.path.insert(0, "/verif"); sys.path.insert(0, "/repo")
import numpy as np
import einx
from vlib import graphs
from checks.c04 import exec_text
SPEC = json.loads(r"""{spec}""")
def tup(v): return tuple(tup(x) for x in v) if isinstance(v, list) else v
args = [np.array(a["data"], dtype=a["dtype"]).reshape(a["shape"]) for a in SPEC["args"]]
kw = {{k: tup(v) for k, v in SPEC["kwargs"].items()}}
fn = getattr(einx, SPEC["op"])
if SPEC.get("adapter"):
    from checks import c15
    import einx.numpy
    base = c15.concrete_fn(SPEC["adapter"], True)
    fn = einx.numpy.adapt_numpylike_reduce(base) if SPEC["adapter"] == "reduce" else einx.numpy.adapt_numpylike_elementwise(base)
    kw["scale"] = eval(SPEC["option"])
    print("adapted user function, option scale=%s" % SPEC["option"])
try:
    with graphs.Capture() as cap:
        text = fn(SPEC["desc"], *args, graph=True, **kw)
except Exception as e:
    if "failed to compile" in str(e):
        print(str(e)[-1500:])
        print("REPRODUCED: the code generated for this call is not valid Python"); sys.exit(1)
    raise
rec = cap.records[-1]
print(text)
try:
    f2, _ = exec_text(rec["code"], rec["function"])
except Exception as e:
    print("REPRODUCED: the returned text does not define the function that is executed (%s: %s); einx runs %r" % (type(e).__name__, e, rec["function"])); sys.exit(1)
def run(f):
    try:
        r = f(*[a.copy() for a in args])
        return [np.asarray(x).tolist() for x in (r if isinstance(r, (tuple, list)) else [r])]
    except Exception as e:
        return "raised " + type(e).__name__
r1, r2 = run(rec["function"]), run(f2)
r3 = run(lambda *a: graphs.Interp().run_graph(rec["graph"], list(a)))
print("function:", r1); print("text    :", r2); print("graph   :", r3)
if text != rec["code"] or r1 != r2 or r1 != r3 or f2.__code__ != rec["function"].__code__:
    print("REPRODUCED: cached function, returned text and traced graph disagree"); sys.exit(1)
print("NOT-REPRODUCED"); sys.exit(0)
'''


def write_captured_replay(case, adapter=None, option=None):
    import hashlib, json, os

    conc = []
    for e, k in zip(case["ins"], case["kinds"]):
        sh = shape(expand(e))
        n = int(np.prod(sh)) if sh else 1
        if k == "bool":
            a = (np.arange(n) % 2 == 0).reshape(sh)
        elif k == "coord":
            a = np.zeros(sh, dtype=np.int64)
        else:
            a = (np.arange(n, dtype=np.int64) * 3 + 1).reshape(sh)
        conc.append({"data": a.tolist(), "dtype": str(a.dtype), "shape": list(sh)})
    spec = {"op": case["op"], "desc": case["desc"], "args": conc, "kwargs": runner.jsonable(dict(case["kwargs"], **case["opts"]))}
    if adapter:
        spec["adapter"], spec["option"] = adapter, option
    text = json.dumps(spec)
    os.makedirs(os.path.join(runner.REPLAY_DIR, PROP), exist_ok=True)
    path = os.path.join(runner.REPLAY_DIR, PROP, "captured_" + hashlib.sha1(text.encode()).hexdigest()[:12] + ".py")
    with open(path, "w") as f:
        f.write(CAPTURED_REPLAY.format(spec=text, hashseed=os.environ.get("PYTHONHASHSEED", "0")))
    return path


def main():
    tier, seed = runner.tier(), runner.seed()
    rep = runner.Report(PROP, "translation_validation")
    st = selftest.run(seed)
    if st["failures"]:
        rep.harness_error("primitive model self-test failed: " + "; ".join(st["failures"][:5]))
    mult = THOROUGH_MULT if tier == "thorough" else 1
    timeout_ms = 30000 if tier == "thorough" else 10000
    cap_items = []
    for fam, n in FAMS.items():
        for c in family.generate(fam, n * mult, seed + 4, tier):
            cap_items.append((c, timeout_ms, "plain"))
            if fam in ("reduce", "elementwise") and len(cap_items) % 3 == 0 and c["kinds"] == ["int"] * len(c["kinds"]) and c["op"] not in ("where",):
                cap_items.append((dict(c, op="sum" if fam == "reduce" else "add"), timeout_ms, "adapter"))
            if len(cap_items) % 4 == 0 and c["kinds"][-1] != "coord":
                cap_items.append((c, timeout_ms, "factory"))
    seq_pool = [c for fam in ("reduce", "elementwise") for c in family.generate(fam, 40 * mult, seed + 9, tier) if c["kinds"] == ["int"] * len(c["kinds"]) and not c["opts"] and len(c["outs"]) == 1 and (fam == "reduce" or len(c["ins"]) >= 2)]
    seq_pool = [dict(c, op="sum" if c["family"] == "reduce" else "add") for c in seq_pool]
    seq_items = []
    for i in range(0, len(seq_pool) - 2, 2):
        k = 2 if i % 4 == 0 else 3
        seq_items.append((seq_pool[i : i + k], [2, 3, 5][:k], timeout_ms))
    # many variables in one generated function (names beyond 'z': 'aa', 'ab', ... must stay valid identifiers)
    from vlib.desc import Ax, Cat, show_op

    for n_in in (30, 46, 60):
        axs = [Ax(f"x{i}", 1 + (i % 2)) for i in range(n_in)]
        ins_m = [(a,) for a in axs]
        out_m = (Cat(tuple(axs)),)
        cap_items.append((family._case("id", "id", show_op(ins_m, [out_m]), ins_m, [out_m], {}, tags={"many-inputs"}), timeout_ms, "plain"))
    rnd_items = [(seed * 1000003 + i, MAX_NODES[tier], timeout_ms) for i in range(N_RANDOM[tier])]
    res_cap = runner.pmap(work_captured, cap_items, chunksize=4)
    res_rnd = runner.pmap(work_random, rnd_items, chunksize=8)
    res_seq = runner.pmap(work_sequence, seq_items, chunksize=2)
    status = collections.Counter()
    ntypes = collections.Counter()
    constructs = collections.Counter()
    samples, nontrivial = [], set()
    solver_s = 0.0
    for (case, _, variant), r in zip(cap_items, res_cap):
        st_ = r["status"]
        if (st_ == "violation?") and not BUDGET.take():
            st_ = "sat-not-replayed"
        elif st_ == "violation?":
            path = write_captured_replay(case) if variant == "plain" else write_captured_replay(case, "reduce" if case["family"] == "reduce" else "elementwise", r.get("option")) if variant == "adapter" else "-"
            ok, out = replay.run_script(path, python=replay.VENV_PY) if path != "-" else (True, "factory variant: see problems")
            st_ = "violation" if ok else "not-reproduced"
            r["replay"], r["replay_out"] = path, out[-1500:]
        status["captured:" + st_] += 1
        solver_s += r.get("solver_s", 0.0)
        if st_ in ("holds", "holds-raise"):
            for t in r.get("node_types", []):
                ntypes[t] += 1
            nontrivial.add(("captured", case["op"], case["desc"], variant))
            if variant != "plain" and len(samples) < 4:
                samples.append({"kind": "captured-" + variant, "call": f"einx.{case['op']}({case['desc']!r})", "code": r.get("code", "")[:600]})
        elif st_ == "violation":
            rep.violation({"kind": "captured", "op": case["op"], "desc": case["desc"], "variant": variant}, r["replay"], f"einx.{case['op']}({case['desc']!r}) [{variant}]: {r.get('problems')}\n{r.get('replay_out', '')[-700:]}")
        elif st_ == "not-reproduced":
            rep.harness_error(f"captured-graph finding did not reproduce: {case['op']} {case['desc']!r} {r.get('problems')} {r.get('replay_out', '')[-300:]}")
        elif st_ == "harness-error":
            rep.harness_error(f"{r.get('error')} {r.get('trace', '')[-600:]}")
        elif st_ in ("unknown", "unmodelled"):
            rep.inconclusive.append({"why": st_, "op": case["op"], "desc": case["desc"]})
    for (sd, mx, _), r in zip(rnd_items, res_rnd):
        st_ = r["status"]
        if (st_ in ("violation?", "compile-error")) and not BUDGET.take():
            st_ = "sat-not-replayed"
        elif st_ in ("violation?", "compile-error"):
            path = write_random_replay(sd, mx)
            ok, out = replay.run_script(path, python=replay.VENV_PY)
            r["replay"], r["replay_out"] = path, out[-2500:]
            if st_ == "compile-error":
                # the builder only produces well-formed graphs: a compile failure is a finding if it reproduces
                ok = "Traceback" in out or ok
            st_ = "violation" if ok else "not-reproduced"
        status["random:" + st_] += 1
        solver_s += r.get("solver_s", 0.0)
        if st_ in ("holds", "holds-raise"):
            for t in r.get("node_types", []):
                ntypes[t] += 1
            for c in r.get("constructs", []):
                constructs[c] += 1
            nontrivial.add(("random", sd))
            if len(samples) < 8 and len(r.get("constructs", [])) >= 6:
                samples.append({"kind": "random", "seed": sd, "constructs": r["constructs"], "code": r.get("code", "")[:900]})
        elif st_ == "violation":
            rep.violation({"kind": "random", "seed": sd, "max_nodes": mx}, r["replay"], f"random graph seed={sd}: {r.get('problems') or r.get('error')}\n{r.get('replay_out', '')[-900:]}")
        elif st_ == "not-reproduced":
            rep.harness_error(f"random-graph finding did not reproduce: seed={sd} {r.get('problems')} {r.get('replay_out', '')[-400:]}")
        elif st_ == "harness-error":
            rep.harness_error(f"{r.get('error')} {r.get('trace', '')[-600:]}")
        elif st_ in ("unknown", "unmodelled"):
            rep.inconclusive.append({"why": st_, "seed": sd})
    for (cases, consts, _), r in zip(seq_items, res_seq):
        st_ = r["status"]
        if st_ == "violation?" and not BUDGET.take():
            st_ = "sat-not-replayed"
        elif st_ == "violation?":
            path = write_sequence_replay(cases, consts)
            ok, out = replay.run_script(path)
            r["replay"], r["replay_out"] = path, out[-1500:]
            st_ = "violation" if ok else "not-reproduced"
        status["sequence:" + st_] += 1
        solver_s += r.get("solver_s", 0.0)
        if st_ == "holds":
            nontrivial.add(("sequence", tuple(r["descs"])))
            if sum(1 for s_ in samples if s_["kind"] == "sequence") < 2:
                samples.append({"kind": "sequence", "adapted_calls": r["descs"], "constant_factors": r["consts"]})
        elif st_ == "violation":
            rep.violation({"kind": "sequence", "descs": r["descs"]}, r["replay"], f"compilations {r['descs']} evaluated after all were compiled: {r.get('problems')}\n{r.get('replay_out', '')[-700:]}")
        elif st_ == "not-reproduced":
            rep.harness_error(f"sequence finding did not reproduce: {r['descs']} {r.get('problems')} {r.get('replay_out', '')[-400:]}")
        elif st_ == "harness-error":
            rep.harness_error(f"{r.get('error')} {r.get('trace', '')[-600:]}")
        elif st_ in ("unknown", "unmodelled"):
            rep.inconclusive.append({"why": st_, "sequence": r["descs"]})
    # vacuity: a deliberately corrupted text must be caught (swap two operands of the first binary call)
    twin = vacuity_twin()
    if twin != "violation?":
        rep.harness_error(f"vacuity twin (text with an altered statement) came back {twin!r}")
    twin2 = tick_twin()
    if twin2 != "violation?":
        rep.harness_error(f"vacuity twin (a constant application evaluated twice) came back {twin2!r}")
    rep.coverage = {
        "programs": len(cap_items) + len(rnd_items) + len(seq_items),
        "disagreements_checked": sum(v for k, v in status.items() if k.endswith(":violation") or k.endswith("not-reproduced")),
        "samples": samples,
        "evaluations": len(cap_items) + len(rnd_items) + len(seq_items),
        "distinct_nontrivial": len(nontrivial),
        "rule": "one harness = one compilation (captured from a real call, or a seeded random graph over all IR node types): cached function vs stand-alone exec of the returned text vs independent graph interpretation on the same symbolic tensors; non-trivial = z3 proved all three equal for all contents, code objects equal, graph=True text identical",
        "status_counts": dict(status),
        "ir_node_types_in_passing_graphs": dict(ntypes),
        "random_graph_constructs": dict(constructs),
        "solver_time_s": round(solver_s, 3),
        "vacuity_twin": twin,
        "vacuity_twin_double_evaluation": twin2,
        "bounds": dict(family.Bounds(tier).as_dict(), random_graph_nodes_max=MAX_NODES[tier]),
        "outside": "tracer/compiler/run.py (not used by the numpy backends); vmap-style nested definitions arise only in the random family",
    }
    rep.assumptions = [
        "R3 interprets in-place nodes functionally (updated copy): values are compared against it, side effects are compared between the cached function and the stand-alone text",
        "random graphs never read a pre-update tracer after its in-place node (the adapters never build such graphs)",
        "tensor contents are mathematical integers",
    ]
    rep.finish()


def tick_twin():
    """Second twin: text in which one application of the counting constant is evaluated twice (same values!) must
    be flagged through the call counts."""
    tracer = graphs.tr()
    for seed in range(12345, 12445):
        graph, shapes, desc = graphs.build_random_graph(seed, 10)
        fn, code = tracer.compiler.python.compile(graph, return_code=True)
        m = re.search(r"^(\s+)(\w+) = const1\((\w+)\)$", code, flags=re.M)
        if not m:
            continue
        line = m.group(0)
        bad = code.replace(line, line + "\n" + line, 1)  # the same statement twice: identical values, one more call
        rec = {"function": fn, "code": bad, "graph": graph}
        args = [S.fresh(f"x{i}", s) for i, s in enumerate(shapes)]
        st, pr, dt, model = compare_triple(rec, args, [], 10000)
        return st if any("counting constant" in p for p in pr) else f"not flagged: {st} {pr}"
    return "no graph with a const1 application found"


def vacuity_twin():
    tracer = graphs.tr()
    graph, shapes, desc = graphs.build_random_graph(12345, 8)
    fn, code = tracer.compiler.python.compile(graph, return_code=True)
    lines = code.splitlines()
    # corrupt: make the returned value the first parameter instead
    bad = re.sub(r"return .*$", "return " + re.search(r"def op\((\w+)", code).group(1), code, flags=re.M)
    rec = {"function": fn, "code": bad, "graph": graph}
    args = [S.fresh(f"x{i}", s) for i, s in enumerate(shapes)]
    st, pr, dt, model = compare_triple(rec, args, [], 10000)
    return st


if __name__ == "__main__":
    main()
