"""C07 — documented shorthand forms mean exactly their documented expansions.

For each family member and each applicable documented rewrite, the short and the long form are both run
through the real pipeline on the same symbolic tensors; z3 proves equal results for all contents (or both
raise the same exception class). See DESIGN.md §3 C07.
"""

import collections
import random
import re

import numpy as np

from vlib import family, harness, relational as R, replay, runner, selftest, symarray as S
from vlib.desc import Ax, Num, Grp, Cat, Brk, Ell, expand, shape, leaves, show_expr, show_item, show_op, strip_brackets

PROP = "C07"
FAMS = {"id": 150, "elementwise": 110, "reduce": 130, "dot": 70, "get_at": 70, "preserve": 70, "argfind": 60, "update": 40}
THOROUGH_MULT = 10
TOL_OPS = replay.FLOAT_OPS


def kw_of(case, extra=None):
    kw = dict(case["kwargs"])
    kw.update(case["opts"])
    if extra:
        kw.update(extra)
    return kw


def map_items(items, fn):
    """Structural map: fn(item) -> replacement item(s) list or None to recurse."""
    out = []
    for it in items:
        r = fn(it)
        if r is not None:
            out.extend(r)
            continue
        if isinstance(it, Grp):
            out.append(Grp(tuple(map_items(it.items, fn))))
        elif isinstance(it, Brk):
            out.append(Brk(tuple(map_items(it.items, fn))))
        elif isinstance(it, Cat):
            out.append(Cat(tuple(map_items(it.parts, fn))))
        elif isinstance(it, Ell):
            inner = map_items((it.item,), fn)
            out.append(Ell(inner[0], it.n, it.rep_sizes, it.anon))
        else:
            out.append(it)
    return tuple(out)


def has(exprs, cls, pred=lambda x: True):
    return any(isinstance(x, cls) and pred(x) for e in exprs for x in R._walk(e))


def rewrites(case, rng):
    """Yield (name, desc_short, kwargs_short, desc_long, kwargs_long, derived arrays for long, post_a)."""
    op, fam = case["op"], case["family"]
    ins, outs, form = list(case["ins"]), list(case["outs"]), case["form"]
    desc = case["desc"]
    out = []
    n = len(ins)
    ident = list(range(n))
    # R1/R2: implicit output / implicit brackets <-> explicit
    if form != "explicit":
        if fam == "elementwise" and form == "implicit-output" and has(ins, Num, lambda x: x.size != 1):
            # every literal number is an axis of its own: 'a 3, a' means 'a c, a -> a c' with c=3 (a second literal
            # 3 written in an output would be yet another axis), so the long form names the numbers
            table0, extra0 = {}, {}
            names0 = iter(["m0_", "m1_", "m2_", "m3_", "m4_", "m5_"])

            def rep0(it):
                if isinstance(it, Num) and it.size != 1:
                    if it.uid not in table0:
                        table0[it.uid] = next(names0)
                        extra0[table0[it.uid]] = it.size
                    return [Ax(table0[it.uid], it.size)]
                return None

            try:
                out.append((form, desc, kw_of(case), family.render([map_items(e, rep0) for e in ins], [map_items(e, rep0) for e in outs], "explicit"), kw_of(case, extra0), ident, [], None, op, op))
            except StopIteration:
                pass
        else:
            out.append((form, desc, kw_of(case), family.render(ins, outs, "explicit"), kw_of(case), ident, [], None, op, op))
    # R3: number <-> fresh name + keyword
    if has(ins + outs, Num):
        names = iter(["n0_", "n1_", "n2_", "n3_", "n4_", "n5_", "n6_", "n7_", "n8_", "n9_"])
        table, extra = {}, {}

        def rep(it):
            if isinstance(it, Num):
                if it.uid not in table:
                    table[it.uid] = next(names)
                    extra[table[it.uid]] = it.size
                return [Ax(table[it.uid], it.size)]
            return None

        try:
            unit_in_implicit_elementwise = fam == "elementwise" and form == "implicit-output" and has(ins, Num, lambda x: x.size == 1)
            if not has(ins + outs, Ell, lambda e: has([(e.item,)], Num)) and not unit_in_implicit_elementwise:
                ins_b = [map_items(e, rep) for e in ins]
                outs_b = [map_items(e, rep) for e in outs]
                out.append(("number", desc, kw_of(case), family.render(ins_b, outs_b, form), kw_of(case, extra), ident, [], None, op, op))
        except StopIteration:
            pass
    # R4: anonymous ellipsis <-> named ellipsis
    if has(ins + outs, Ell, lambda e: e.anon):

        def rep(it):
            if isinstance(it, Ell) and it.anon:
                return [Ell(it.item, it.n, it.rep_sizes, False)]
            return None

        out.append(("anonymous-ellipsis", desc, kw_of(case), family.render([map_items(e, rep) for e in ins], [map_items(e, rep) for e in outs], form), kw_of(case), ident, [], None, op, op))
    # R5: ellipsis <-> written-out repetition (and scalar size <-> repeated tuple)
    if has(ins + outs, Ell):

        def rep(it):
            if isinstance(it, Ell):
                res = []
                for r in range(it.n):
                    sizes = dict(it.rep_sizes[r])
                    res.extend(map_items((it.item,), lambda x: [Ax(f"{x.name}_{r}", sizes[x.name])] if isinstance(x, Ax) else None))
                return res
            return None

        kw_long = {}
        ell_bases = {nm: e for ex in ins + outs for e in R._walk(ex) if isinstance(e, Ell) for nm in family.ell_names(e)}
        kw_tuple = {}
        for k, v in case["kwargs"].items():
            if k in ell_bases:
                e = ell_bases[k]
                vals = tuple(v) if isinstance(v, (tuple, list)) else (v,) * e.n
                for r, x in enumerate(vals):
                    kw_long[f"{k}_{r}"] = x
                kw_tuple[k] = vals
            else:
                kw_long[k] = v
                kw_tuple[k] = v
        kw_long.update(case["opts"])
        kw_tuple.update(case["opts"])
        empties_bracket = has(ins + outs, Brk, lambda b: all(isinstance(x, Ell) and x.n == 0 for x in b.items))
        if not empties_bracket:
            # the implicit output of an element-wise call is chosen on the UN-expanded expressions (an ellipsis counts as
            # a name of its own, even with zero repetitions): the written-out form states that output explicitly
            form_long = form
            skip = False
            if fam == "elementwise" and form == "implicit-output" and has(ins + outs, Ell, lambda e: e.n == 0):
                form_long = "explicit"
                skip = has(ins, Num, lambda x: x.size != 1)  # a literal number cannot be repeated in an explicit output
            if not skip:
                out.append(("ellipsis-written-out", desc, kw_of(case), family.render([map_items(e, rep) for e in ins], [map_items(e, rep) for e in outs], form_long), kw_long, ident, [], None, op, op))
        if any(k in ell_bases and not isinstance(v, (tuple, list)) for k, v in case["kwargs"].items()):
            out.append(("scalar-size-for-ellipsis", desc, kw_of(case), desc, kw_tuple, ident, [], None, op, op))
    # R6: nested '->' / ',' <-> top-level distribution
    if form == "explicit" and len(ins) == 1 and len(outs) == 1:
        a, b = list(ins[0]), list(outs[0])
        p = 0
        while p < min(len(a), len(b)) and a[p] == b[p]:
            p += 1
        s = 0
        while s < min(len(a), len(b)) - p and a[len(a) - 1 - s] == b[len(b) - 1 - s]:
            s += 1
        ma, mb = a[p : len(a) - s], b[p : len(b) - s]
        if len(ma) == 1 and len(mb) == 1 and type(ma[0]) is type(mb[0]) and isinstance(ma[0], (Brk, Grp)) and (p or s):
            o, c = ("[", "]") if isinstance(ma[0], Brk) else ("(", ")")
            mid = o + show_expr(ma[0].items) + " -> " + show_expr(mb[0].items) + c
            nested = " ".join([show_item(x) for x in a[:p]] + [mid] + [show_item(x) for x in a[len(a) - s :]])
            out.append(("nested-arrow", nested, kw_of(case), desc, kw_of(case), ident, [], None, op, op))
    if form == "explicit" and len(ins) >= 2:
        lists = [list(e) for e in ins]
        p = 0
        while all(p < len(l) for l in lists) and all(l[p] == lists[0][p] for l in lists):
            p += 1
        s = 0
        while all(s < len(l) - p for l in lists) and all(l[len(l) - 1 - s] == lists[0][len(lists[0]) - 1 - s] for l in lists):
            s += 1
        mids = [l[p : len(l) - s] for l in lists]
        if (p or s) and all(len(m) == 1 for m in mids) and all(type(m[0]) is type(mids[0][0]) and isinstance(m[0], (Brk, Grp)) for m in mids):
            o, c = ("[", "]") if isinstance(mids[0][0], Brk) else ("(", ")")
            mid = o + ", ".join(show_expr(m[0].items) for m in mids) + c
            nested = " ".join([show_item(x) for x in lists[0][:p]] + [mid] + [show_item(x) for x in lists[0][len(lists[0]) - s :]])
            nested += " -> " + ", ".join(show_expr(e) for e in outs)
            out.append(("nested-comma", nested, kw_of(case), desc, kw_of(case), ident, [], None, op, op))
    # R7: adjacent brackets <-> one bracket
    def merge_adjacent(items):
        res, changed = [], False
        for it in items:
            if isinstance(it, Grp):
                sub, ch = merge_adjacent(it.items)
                res.append(Grp(tuple(sub)))
                changed |= ch
            elif isinstance(it, Brk) and res and isinstance(res[-1], Brk):
                res[-1] = Brk(res[-1].items + it.items)
                changed = True
            else:
                res.append(it)
        return res, changed

    def split_brackets(items):
        res, changed = [], False
        for it in items:
            if isinstance(it, Grp):
                sub, ch = split_brackets(it.items)
                res.append(Grp(tuple(sub)))
                changed |= ch
            elif isinstance(it, Brk) and len(it.items) > 1:
                res.extend(Brk((x,)) for x in it.items)
                changed = True
            else:
                res.append(it)
        return res, changed

    for nm, fn in (("adjacent-brackets-merged", merge_adjacent), ("one-bracket-split", split_brackets)):
        rs = [fn(e) for e in ins]
        ro = [fn(e) for e in outs]
        if any(ch for _, ch in rs + ro):
            ins_b = [tuple(r) for r, _ in rs]
            outs_b = [tuple(r) for r, _ in ro]
            if form == "implicit-output" and fam == "argfind":
                continue  # the implicit output needs exactly one bracket
            out.append((nm, desc, kw_of(case), family.render(ins_b, outs_b, form), kw_of(case), ident, [], None, op, op))
    # R8: keepdims=True <-> every bracket wrapped in parentheses (implicit output)
    if fam == "reduce" and form == "implicit-output":

        def rep(it):
            if isinstance(it, Brk):
                return [Grp((it,))]
            return None

        ins_b = [map_items(e, rep) for e in ins]
        # a bracket of several axes becomes one flattened dimension: the long form sees the reshaped tensor
        out.append(("keepdims", desc, kw_of(case, {"keepdims": True}), show_op(ins_b), dict(R.all_sizes_kwargs(case, ins), **case["opts"]), [n], [("reshape", 0, list(shape(expand(ins_b[0]))))], None, op, op))
    # R9: length-1 coordinate bracket <-> no bracket
    if fam in ("get_at",):
        for i in range(1, n):
            pos = [j for j, it in enumerate(ins[i]) if isinstance(it, Brk) and len(it.items) == 1 and isinstance(it.items[0], (Num, Ax)) and it.items[0].size == 1]
            if pos:
                j = pos[0]
                e_b = tuple(x for k, x in enumerate(ins[i]) if k != j)
                ins_b = list(ins)
                ins_b[i] = e_b
                args_b = list(ident)
                args_b[i] = n
                out.append(("unit-coordinate-bracket", desc, kw_of(case), family.render(ins_b, outs, form), {k: v for k, v in kw_of(case).items() if not (isinstance(ins[i][j].items[0], Ax) and k == ins[i][j].items[0].name)}, args_b, [("reshape", i, list(shape(expand(e_b))))], None, op, op))
                break
    if fam == "argfind" and form == "explicit":
        e = outs[0]
        pos = [j for j, it in enumerate(e) if isinstance(it, Brk) and len(it.items) == 1 and it.items[0].size == 1]
        if pos:
            e_b = tuple(x for k, x in enumerate(e) if k != pos[0])
            out.append(("unit-coordinate-bracket", desc, kw_of(case), family.render(ins, [e_b], form), kw_of(case), ident, [], [[("reshape", list(shape(expand(e_b))))]], op, op))
    # R10: additional spaces
    sp = spaced(desc, rng)
    if sp != desc:
        out.append(("extra-spaces", sp, kw_of(case), desc, kw_of(case), ident, [], None, op, op))
    # R11: rearrange == id
    if fam == "id":
        out.append(("rearrange", desc, kw_of(case), desc, kw_of(case), ident, [], None, "rearrange", "id"))
    return out


_PUNCT = re.compile(r"(->|,|\+|\(|\)|\[|\]| )")


def spaced(desc, rng):
    toks = [t for t in _PUNCT.split(desc) if t != ""]
    res = []
    for t in toks:
        if t == " ":
            res.append(" " * rng.choice([1, 2, 3]))
        elif _PUNCT.fullmatch(t):
            res.append(" " * rng.choice([0, 0, 1, 2]) + t + " " * rng.choice([0, 0, 1, 2]))
        else:
            res.append(t)
    s = "".join(res)
    # a space must not be introduced between an expression and its ellipsis, nor glue two names
    s = re.sub(r"\s+\.\.\.", "...", s) if "..." in desc and not re.search(r"(^|[\s\(\[,>])\.\.\.", desc) else s
    return " " * rng.choice([0, 1]) + s + " " * rng.choice([0, 2])


def work(item):
    case, seed, timeout_ms = item
    rng = random.Random(f"{seed}:{case['desc']}:{case['op']}")
    arrs0 = harness.build_inputs(case)
    results = []
    for name, d_short, kw_short, d_long, kw_long, args_b, derived, post, op_a, op_b in rewrites(case, rng):
        if case["op"] == "set_at" and name not in ("extra-spaces", "implicit-output"):
            continue
        if d_short == d_long and kw_short == kw_long and op_a == op_b:
            continue
        arrs = list(arrs0)
        for d in derived:
            arrs.append(np.reshape(arrs0[d[1]], d[2]))
        kinds = list(case["kinds"]) + [case["kinds"][d[1]] for d in derived]
        post_a = post if post is not None else [[] for _ in range(max(len(case["outs"]), 1))]
        title = f"{name}: einx.{op_a}({d_short!r}, **{kw_short}) vs einx.{op_b}({d_long!r}, **{kw_long})"
        r = R.decide_pair(PROP, title, [(op_a, d_short, list(range(len(arrs0))), kw_short, None)], [(op_b, d_long, args_b, kw_long, None)], post_a, arrs, harness.coord_assumptions(case, arrs0), timeout_ms, kinds=kinds, tol_ops=case["op"] in TOL_OPS)
        r.update({"rewrite": name, "op": case["op"], "short": d_short, "long": d_long})
        results.append(r)
    return {"status": "done", "results": results}


def vacuity(case):
    """Twin: same description, tensor with two equal-length dimensions swapped - a real change that must
    be refuted (unless the operation happens to be symmetric in them: try the next pair)."""
    if case["family"] != "reduce":
        return None
    sh = shape(expand(case["ins"][0]))
    for i in range(len(sh)):
        for j in range(i + 1, len(sh)):
            if sh[i] == sh[j] and sh[i] > 1:
                arrs = harness.build_inputs(case)
                arrs.append(np.swapaxes(arrs[0], i, j))
                r = R.decide_pair(PROP + "-twin", "twin", [(case["op"], case["desc"], [0], kw_of(case), None)], [(case["op"], case["desc"], [1], kw_of(case), None)], [[]], arrs, [], 10000, kinds=case["kinds"] * 2, exceptions_must_agree=False)
                if r["status"] == "violation":
                    return "violation"
    return None


def main():
    tier, seed = runner.tier(), runner.seed()
    rep = runner.Report(PROP, "translation_validation")
    st = selftest.run(seed)
    if st["failures"]:
        rep.harness_error("primitive model self-test failed: " + "; ".join(st["failures"][:5]))
    mult = THOROUGH_MULT if tier == "thorough" else 1
    timeout_ms = 60000 if tier == "thorough" else 15000
    items, all_cases = [], []
    for fam, n in FAMS.items():
        cs = family.generate(fam, n * mult, seed + 7, tier)
        all_cases.extend(cs)
        items.extend((c, seed, timeout_ms) for c in cs)
    results = runner.pmap(work, items, chunksize=4)
    status = collections.Counter()
    by_rw = collections.defaultdict(collections.Counter)
    samples, nontrivial = [], set()
    solver_s, n_pairs = 0.0, 0
    for (case, _, _), wr in zip(items, results):
        if wr.get("status") == "harness-error":
            rep.harness_error(f"{wr.get('error')} {wr.get('trace', '')[-800:]}")
            continue
        for r in wr["results"]:
            n_pairs += 1
            st_ = r["status"]
            status[st_] += 1
            by_rw[r["rewrite"]][st_] += 1
            solver_s += r.get("solver_s", 0.0)
            if st_ in ("holds", "both-raise"):
                nontrivial.add((r["rewrite"], r["op"], r["short"], r["long"]))
                if by_rw[r["rewrite"]][st_] <= 1 and len(samples) < 20:
                    samples.append({"rewrite": r["rewrite"], "op": r["op"], "short": r["short"], "long": r["long"], "outcome": st_, "verdict": r.get("verdict"), "error": r.get("error")})
            elif st_ in ("violation",):
                sig = {"rewrite": r["rewrite"], "op": r["op"], "short": r["short"], "long": r["long"]}
                rep.violation(sig, r["replay"], f"{r['title']}\n{r.get('replay_out', '')[-700:]}")
            elif st_ == "both-raise-different":
                rep.inconclusive.append({"why": "both forms raise, different classes", "title": r["title"], "error": r.get("error")})
            elif st_ == "not-reproduced":
                if r["op"] in TOL_OPS or r["op"] == "logaddexp":
                    rep.inconclusive.append({"why": "sat under uninterpreted exp/log/sqrt; floating-point replay agrees", "title": r["title"]})
                else:
                    rep.harness_error(f"counterexample did not reproduce: {r['title']} replay={r.get('replay')} {r.get('replay_out', '')[-300:]}")
            elif st_ in ("unknown", "unmodelled", "one-raises-ignored"):
                rep.inconclusive.append({"why": st_, "title": r["title"], "error": r.get("error")})
    tw = None
    for c in all_cases:
        tw = vacuity(c)
        if tw is not None:
            break
    if tw != "violation":
        rep.harness_error(f"vacuity twin (bracket moved to another equal-length axis) came back {tw!r}, expected a reproduced difference")
    rep.coverage = {
        "programs": n_pairs,
        "disagreements_checked": status["violation"] + status["not-reproduced"],
        "samples": samples,
        "evaluations": n_pairs,
        "distinct_nontrivial": len(nontrivial),
        "rule": "one harness = (documented rewrite, operation, short form, long form) on shared symbolic tensors; non-trivial = z3 proved equal results for all contents, or both forms raise the same exception class",
        "status_counts": dict(status),
        "by_rewrite": {k: dict(v) for k, v in by_rw.items()},
        "solver_time_s": round(solver_s, 3),
        "vacuity_twin": tw,
        "model_selftest": {"checks": st["checks"], "failures": len(st["failures"])},
        "bounds": family.Bounds(tier).as_dict(),
    }
    rep.assumptions = [
        "tensor contents are mathematical integers/reals; coordinates in range",
        "the long form itself is the oracle (no RefSem)",
        "set_at only for rewrites that cannot change the lowering's update order",
    ]
    rep.finish()


if __name__ == "__main__":
    main()
