"""C02 — axis and rank solving is sound, unambiguous and exact (ops and solve_* API).

z3 is the arbiter of "every assignment of positive integers satisfying all stated constraints": the constraint
system is built from the structured description (vlib/axes.py), independently of einx and sympy, one flat
system per ellipsis-count vector. einx's observed behaviour (solve_axes / solve_shapes / matches) is then
judged: soundness (reported values are the values in *every* model), must-fail (no model / two models that
differ on a reported quantity), must-succeed (reference unit propagation determines everything), exactness
(unbounded integers). See DESIGN.md §3 C02.
"""

import collections
import json
import os
import random
import types

import numpy as np
import z3

from vlib import axes, family, replay, runner
from vlib.desc import Ax, Num, Grp, Cat, Brk, Ell, expand, shape, show_expr, leaves

PROP = "C02"
N = {"quick": 700, "thorough": 9000}
TEMPLATE_N = 900
Z3_TIMEOUT = {"quick": 8000, "thorough": 30000}
DOCUMENTED_FAIL = ("RankError", "AxisSizeError")


# ---------------------------------------------------------------------------------------------------
# members


def gen_member(rng, idx):
    g = family.Gen(rng.random())
    g.b.sizes = [1, 2, 3, 4, 5, 6]
    n_expr = rng.choice([1, 1, 2, 2, 3])
    pool = g.pool(rng.randint(1, 5), max_elems=10**6)
    exprs = []
    ell = None
    if rng.random() < 0.45:
        n = rng.choice([0, 1, 2, 2, 3])
        base = rng.choice(["s", "t"])
        sizes = [rng.choice([1, 2, 3, 4]) for _ in range(n)]
        form = rng.choice(["plain", "plain", "pair", "anon"])
        if form == "pair":
            d = [rng.choice([1, 2]) for _ in range(n)]
            ell = Ell(Grp((Ax(base, 0), Ax("d" + base, 0))), n, tuple(((base, s), ("d" + base, x)) for s, x in zip(sizes, d)))
        else:
            ell = Ell(Ax(base, 0), n, tuple(((base, s),) for s in sizes), anon=(form == "anon"))
    for i in range(n_expr):
        sub = [l for l in pool if rng.random() < 0.7] or [rng.choice(pool)]
        items = list(g.layout(sub, group_prob=0.35))
        if rng.random() < 0.25:
            free = [nm for nm in family.NAMES if nm not in {l.name for l in pool}]
            parts = []
            for _ in range(rng.randint(2, 3)):
                r = rng.random()
                if r < 0.6 and free:
                    parts.append(Ax(free.pop(), rng.choice([1, 2, 3])))
                elif r < 0.8:
                    parts.append(Num(rng.choice([1, 2])))
                else:
                    parts.append(rng.choice(sub))
            if len(parts) >= 2:
                items.insert(rng.randrange(len(items) + 1), Cat(tuple(parts)))
        if ell is not None and rng.random() < 0.7:
            e = ell
            if ell.anon is False and isinstance(ell.item, Ax) and rng.random() < 0.3:
                e = Grp((ell,))
            items.insert(rng.randrange(len(items) + 1), e)
        exprs.append(tuple(items))
    true_shapes = [tuple(shape(expand(e))) for e in exprs]
    known = [rng.random() < 0.75 for _ in exprs]
    if not any(known):
        known[rng.randrange(len(known))] = True
    try:
        kw = family.make_kwargs(rng, exprs, [], known_flags=known)
    except ValueError:
        return None
    shapes = [s if k else None for s, k in zip(true_shapes, known)]
    tag = "consistent"
    # exactness: scale one axis so that a dimension / product crosses 2**31
    if rng.random() < 0.12:
        names = sorted({l.name for e in exprs for l, _ in leaves(expand(e)) if isinstance(l, Ax) and "." not in l.name})
        if names:
            nm = rng.choice(names)
            factor = rng.choice([2**16, 2**31, 2**31 + 7, 2**33])
            exprs = [scale_axis(e, nm, factor) for e in exprs]
            true_shapes = [tuple(shape(expand(e))) for e in exprs]
            shapes = [s if k else None for s, k in zip(true_shapes, known)]
            if nm in kw:
                kw[nm] = kw[nm] * factor
            tag = "huge"
    # perturbations: single edits that may make the call inconsistent or under-determined
    r = rng.random()
    if r < 0.45 and tag == "consistent":
        kind = rng.choice(["dim+1", "dim-1", "dim*2", "drop-kw", "contradict-kw", "rank+", "rank-", "tuple-len", "dim*3", "dim->0", "kw->0"])
        ks = [i for i, s in enumerate(shapes) if s is not None and len(s) > 0]
        if kind.startswith("dim") and ks:
            i = rng.choice(ks)
            s = list(shapes[i])
            j = rng.randrange(len(s))
            s[j] = {"dim+1": s[j] + 1, "dim-1": s[j] - 1, "dim*2": s[j] * 2, "dim*3": s[j] * 3, "dim->0": 0}[kind]
            if s[j] >= 1 or kind == "dim->0":
                shapes[i] = tuple(s)
                tag = kind
        elif kind == "drop-kw" and kw:
            kw.pop(rng.choice(sorted(kw)))
            tag = kind
        elif kind == "kw->0" and kw:
            k = rng.choice(sorted(kw))
            v = kw[k]
            kw[k] = tuple(0 if i == 0 else x for i, x in enumerate(v)) if isinstance(v, tuple) and v else 0
            tag = kind
        elif kind == "contradict-kw" and kw:
            k = rng.choice(sorted(kw))
            v = kw[k]
            kw[k] = tuple(x + 1 for x in v) if isinstance(v, tuple) else v + 1
            tag = kind
        elif kind == "rank+" and ks:
            i = rng.choice(ks)
            shapes[i] = shapes[i] + (rng.choice([1, 2]),)
            tag = kind
        elif kind == "rank-" and ks:
            i = rng.choice(ks)
            shapes[i] = shapes[i][:-1]
            tag = kind
        elif kind == "tuple-len":
            tk = [k for k, v in kw.items() if isinstance(v, tuple)]
            if tk:
                k = rng.choice(tk)
                kw[k] = kw[k] + (2,)
                tag = kind
    api = rng.choice(["solve_axes", "solve_axes", "solve_shapes", "matches"])
    return {"exprs": tuple(exprs), "shapes": shapes, "kwargs": kw, "api": api, "tag": tag, "desc": ", ".join(show_expr(e) for e in exprs)}


def scale_axis(expr, name, factor):
    def rec(it):
        if isinstance(it, Ax):
            return Ax(it.name, it.size * factor) if it.name == name else it
        if isinstance(it, Grp):
            return Grp(tuple(rec(i) for i in it.items))
        if isinstance(it, Brk):
            return Brk(tuple(rec(i) for i in it.items))
        if isinstance(it, Cat):
            return Cat(tuple(rec(i) for i in it.parts))
        return it

    return tuple(rec(i) for i in expr)


# ---------------------------------------------------------------------------------------------------
# einx behaviour


def call_einx(m):
    import einx

    tensors = [types.SimpleNamespace(shape=s) if s is not None else None for s in m["shapes"]]
    fn = getattr(einx, m["api"])
    try:
        r = fn(m["desc"], *tensors, **m["kwargs"])
    except Exception as e:  # noqa: BLE001
        return {"outcome": "raised", "class": type(e).__name__, "msg": str(e).splitlines()[0][:200] if str(e) else ""}
    if m["api"] == "solve_axes":
        val = {}
        for k, v in r.items():
            if isinstance(v, np.ndarray):
                if v.ndim != 1:
                    return {"outcome": "unsupported-shape"}
                val[k] = [int(x) for x in v]
            else:
                val[k] = int(v)
        return {"outcome": "ok", "value": val}
    if m["api"] == "solve_shapes":
        return {"outcome": "ok", "value": [[int(x) for x in s] for s in r]}
    return {"outcome": "ok" if r else "raised", "class": "matches=False", "value": bool(r)}


def reported_mismatch(m, sysk, value):
    """z3 formula 'some reported quantity differs from einx's value' for count vector k; True when the
    structure (repetition count / rank) already differs."""
    api = m["api"]
    anon = anon_names(m["exprs"])
    if api == "solve_axes":
        diffs = []
        for name, v in value.items():
            if isinstance(v, list):
                if name not in sysk.counts:
                    return True
                if sysk.counts[name] != len(v):
                    return True
                for r, x in enumerate(v):
                    if (name, r) in sysk.vars:
                        diffs.append(sysk.vars[(name, r)] != x)
            else:
                if name in sysk.counts:
                    return True
                if (name, None) in sysk.vars:
                    diffs.append(sysk.vars[(name, None)] != v)
        # every named axis of the description must be reported
        for (name, r) in sysk.vars:
            if name not in value and name not in anon:
                return True
        return z3.Or(*diffs) if diffs else False
    shapes = value if api == "solve_shapes" else None
    if shapes is None:
        return False
    diffs = []
    for terms, s in zip(sysk.dim_terms, shapes):
        if len(terms) != len(s):
            return True
        for t, x in zip(terms, s):
            diffs.append(t != x)
    return z3.Or(*diffs) if diffs else False


def anon_names(exprs):
    out = set()
    for e in exprs:
        for it in walk(e):
            if isinstance(it, Ell) and it.anon:
                out |= set(axes.names_in((it.item,)))
    return out


def walk(items):
    for it in items:
        yield it
        if isinstance(it, (Grp, Brk)):
            yield from walk(it.items)
        elif isinstance(it, Cat):
            yield from walk(it.parts)
        elif isinstance(it, Ell):
            yield from walk((it.item,))


def relaxation_feasible(m, timeout_ms):
    """Is the member feasible once every parenthesised group whose named axes occur nowhere outside
    (identical copies of) that group is replaced by one free axis? That is exactly what einx's common-
    subexpression elimination does before solving; a member that is infeasible but becomes feasible under
    this relaxation is attributed to that call site (known finding), anything else is not."""
    from vlib.desc import show_item

    occurrences = collections.Counter()
    for e in m["exprs"]:
        for it in walk(e):
            if isinstance(it, Ax):
                occurrences[it.name] += 1
    for k in m["kwargs"]:
        occurrences[k] += 1000  # constrained from outside: never eliminable

    def names(it):
        return [x.name for x in walk((it,)) if isinstance(x, Ax)]

    strings = collections.defaultdict(list)
    for e in m["exprs"]:
        for it in walk(e):
            if isinstance(it, (Grp, Cat)):
                strings[show_item(it)].append(it)

    def eliminable(it):
        if not isinstance(it, (Grp, Cat)) or any(isinstance(x, Ell) for x in walk((it,))):
            return False
        nm = names(it)
        if not nm:
            return False
        copies = len(strings[show_item(it)])
        inside = collections.Counter(nm)
        return all(occurrences[n] == inside[n] * copies for n in inside)

    def rel(items):
        out = []
        for it in items:
            if eliminable(it):
                out.append(Ax("cse_" + str(abs(hash(show_item(it))) % 10**8), 1))
            elif isinstance(it, Grp):
                out.append(Grp(tuple(rel(it.items))))
            elif isinstance(it, Brk):
                out.append(Brk(tuple(rel(it.items))))
            elif isinstance(it, Cat):
                out.append(Cat(tuple(rel(it.parts))))
            elif isinstance(it, Ell):
                out.append(Ell(rel((it.item,))[0], it.n, it.rep_sizes, it.anon))
            else:
                out.append(it)
        return tuple(out)

    exprs = tuple(rel(e) for e in m["exprs"])
    if exprs == m["exprs"]:
        return False
    vecs, ell_names = axes.count_vectors(exprs, m["shapes"], m["kwargs"])
    for counts in vecs:
        sysk = axes.System(exprs, m["shapes"], m["kwargs"], counts, ell_names)
        if sysk.ok and str(sysk.solver(timeout_ms).check()) == "sat":
            return True
    return False


def model_values(sysk, model):
    return {f"{n}" if r is None else f"{n}.{r}": model.eval(v, model_completion=True).as_long() for (n, r), v in sysk.vars.items()}


def judge(m, timeout_ms):
    """Returns dict(status, ...). status: holds | violation? | inconclusive."""
    res = {"desc": m["desc"], "shapes": m["shapes"], "kwargs": runner.jsonable(m["kwargs"]), "api": m["api"], "tag": m["tag"]}
    beh = call_einx(m)
    res["einx"] = beh
    if beh["outcome"] == "unsupported-shape":
        res["status"] = "inconclusive"
        res["why"] = "nested ellipsis value"
        return res
    vecs, ell_names = axes.count_vectors(m["exprs"], m["shapes"], m["kwargs"])
    sat, queries, t_solver = [], 0, 0.0
    unknown = False
    import time

    for counts in vecs:
        try:
            sysk = axes.System(m["exprs"], m["shapes"], m["kwargs"], counts, ell_names)
        except NotImplementedError:
            res["status"] = "inconclusive"
            res["why"] = "nested ellipsis"
            return res
        if not sysk.ok:
            continue
        s = sysk.solver(timeout_ms)
        t0 = time.time()
        r = s.check()
        t_solver += time.time() - t0
        queries += 1
        if str(r) == "sat":
            sat.append((counts, sysk, s.model()))
        elif str(r) == "unknown":
            unknown = True
    res["queries"], res["solver_s"] = queries, t_solver
    res["satisfiable_count_vectors"] = len(sat)
    prop = axes.propagate(m["exprs"], m["shapes"], m["kwargs"])
    res["propagation_determines_all"] = prop is not None
    ok = beh["outcome"] == "ok"
    if ok and m["api"] == "matches":
        value = None
    else:
        value = beh.get("value")
    if ok:
        if unknown:
            res["status"] = "inconclusive"
            res["why"] = "z3 unknown on a feasibility query"
            return res
        if not sat:
            res["status"] = "violation?"
            res["kind"] = "accepted-but-no-assignment-exists"
            res["cse_relaxation_feasible"] = relaxation_feasible(m, timeout_ms)
            return res
        if m["api"] == "matches":
            # matches=True claims the shapes are determined: two models with different shapes refute it
            first = None
            for counts, sysk, model in sat:
                shp = [[model.eval(t, model_completion=True).as_long() for t in terms] for terms in sysk.dim_terms]
                if first is None:
                    first = (shp, sysk, model)
                f = reported_mismatch(dict(m, api="solve_shapes"), sysk, first[0])
                if f is True:
                    res["status"] = "violation?"
                    res["kind"] = "matches-true-but-shapes-ambiguous"
                    res["witness"] = [model_values(first[1], first[2]), model_values(sysk, model)]
                    return res
                if f is not False:
                    s = sysk.solver(timeout_ms)
                    s.add(f)
                    t0 = time.time()
                    r = str(s.check())
                    res["solver_s"] += time.time() - t0
                    res["queries"] += 1
                    if r == "sat":
                        res["status"] = "violation?"
                        res["kind"] = "matches-true-but-shapes-ambiguous"
                        res["witness"] = [model_values(first[1], first[2]), model_values(sysk, s.model())]
                        return res
                    if r == "unknown":
                        res["status"] = "inconclusive"
                        res["why"] = "z3 unknown on a uniqueness query"
                        return res
            res["status"] = "holds"
            return res
        for counts, sysk, model in sat:
            f = reported_mismatch(m, sysk, value)
            if f is True:
                res["status"] = "violation?"
                res["kind"] = "another-assignment-differs-in-rank-or-repetitions"
                res["witness"] = [model_values(sysk, model)]
                return res
            if f is False:
                continue
            s = sysk.solver(timeout_ms)
            s.add(f)
            t0 = time.time()
            r = str(s.check())
            res["solver_s"] += time.time() - t0
            res["queries"] += 1
            if r == "sat":
                res["status"] = "violation?"
                res["kind"] = "reported-value-is-not-the-value-in-every-assignment"
                res["witness"] = [model_values(sysk, s.model())]
                return res
            if r == "unknown":
                res["status"] = "inconclusive"
                res["why"] = "z3 unknown on a uniqueness query"
                return res
        res["status"] = "holds"
        return res
    # einx raised / matches False
    cls = beh.get("class")
    if prop is not None:
        res["status"] = "violation?"
        res["kind"] = "rejected-although-substitution-determines-everything"
        res["witness"] = [{(n if r is None else f"{n}.{r}"): v for (n, r), v in prop["values"].items()}]
        return res
    if m["api"] != "matches" and cls not in DOCUMENTED_FAIL:
        must_fail = (not sat) and not unknown
        res["status"] = "violation?" if must_fail or True else "holds"
        res["kind"] = f"undocumented-exception-class:{cls}"
        return res
    res["status"] = "holds"
    return res


# ---------------------------------------------------------------------------------------------------
# replay


REPLAY = r'''#!/venv/bin/python
"""Replay (C02): einx's axis solving vs. explicit integer assignments (plain Python arithmetic)."""
import itertools, json, sys, types
sys.path.insert(0, "/repo")
import numpy as np
import einx
SPEC = json.loads(r"""{spec}""")
def tup(v): return tuple(tup(x) for x in v) if isinstance(v, list) else v
tensors = [types.SimpleNamespace(shape=tuple(s)) if s is not None else None for s in SPEC["shapes"]]
kw = {{k: tup(v) for k, v in SPEC["kwargs"].items()}}
print("call: einx.%s(%r, shapes=%r, **%r)" % (SPEC["api"], SPEC["desc"], SPEC["shapes"], kw))
try:
    r = getattr(einx, SPEC["api"])(SPEC["desc"], *tensors, **kw)
    out = ("ok", r)
except Exception as e:
    out = ("raised", type(e).__name__)
print("einx ->", out)
def size(it, val):
    if it[0] == "ax": return val[it[1] if it[2] is None else "%s.%d" % (it[1], it[2])]
    if it[0] == "num": return it[1]
    if it[0] in ("grp", "brk"):
        p = 1
        for d in dims(it[1]): p *= size(d, val)
        return p
    if it[0] == "cat": return sum(size(d, val) for d in it[1])
def dims(items):
    o = []
    for it in items:
        if it[0] == "brk": o.extend(dims(it[1]))
        else: o.append(it)
    return o
def satisfies(w):
    """Does assignment w (with its own expansion of the ellipses) satisfy every stated constraint?"""
    val, expanded = w["values"], w["expanded"]
    if any(v < 1 for v in val.values()): return False
    for ex, shp in zip(expanded, SPEC["shapes"]):
        if shp is None: continue
        ds = dims(ex)
        if len(ds) != len(shp) or any(size(d, val) != s for d, s in zip(ds, shp)): return False
    for k, v in SPEC["kwargs"].items():
        keys = sorted([n for n in val if n == k or n.startswith(k + ".")], key=lambda n: (len(n), n))
        if not keys: continue
        vals = v if isinstance(v, list) else [v] * len(keys)
        if len(vals) != len(keys) or any(val[n] != x for n, x in zip(keys, vals)): return False
    return True
kind = SPEC["kind"]
ws = SPEC.get("witness", [])
for w in ws:
    print("assignment", w["values"], "shapes", [[size(d, w["values"]) for d in dims(ex)] for ex in w["expanded"]], "satisfies all constraints:", satisfies(w))
ok_w = all(satisfies(w) for w in ws)
if kind.startswith("undocumented-exception-class"):
    if out[0] == "raised" and out[1] not in ("RankError", "AxisSizeError"):
        print("REPRODUCED: axis solving failed with %s (documented: RankError / AxisSizeError)" % out[1]); sys.exit(1)
elif kind == "rejected-although-substitution-determines-everything":
    if (out[0] == "raised" or out[1] is False) and ok_w:
        print("REPRODUCED: einx rejects the call although substituting known values one axis at a time determines every length"); sys.exit(1)
elif kind == "accepted-but-no-assignment-exists":
    # brute force over the (bounded) candidate space to confirm emptiness
    names = SPEC["brute"]["names"]; hi = SPEC["brute"]["bounds"]
    found = None
    if names is not None:
        for exp in SPEC["brute"]["expansions"]:
            nm = exp["names"]
            for combo in itertools.product(*[range(1, hi[n] + 1) for n in nm]):
                if satisfies({{"values": dict(zip(nm, combo)), "expanded": exp["expanded"]}}): found = dict(zip(nm, combo)); break
            if found: break
    if (out[0] == "ok" and out[1] is not False) and found is None:
        print("REPRODUCED: einx accepted the call (%r) but no assignment of positive integers satisfies the constraints%s" % (out[1], "" if names is not None else " (z3; space too large for brute force)")); sys.exit(1)
else:
    if out[0] == "ok" and out[1] is not False and ok_w:
        print("REPRODUCED: %s - einx reported %r but the assignment(s) above also satisfy every constraint" % (kind, out[1])); sys.exit(1)
print("NOT-REPRODUCED"); sys.exit(0)
'''


def witness_payload(m, w, counts_hint=None):
    """Expanded expressions for a witness assignment (names 'a' / 'a.0')."""
    counts = {}
    for k in w:
        if "." in k:
            b, r = k.split(".")
            counts[b] = max(counts.get(b, 0), int(r) + 1)
    groups = axes.ellipsis_groups(m["exprs"])
    for g in groups:
        c = max([counts.get(n, 0) for n in g] + [0])
        if counts_hint:
            c = max(c, max(counts_hint.get(n, 0) for n in g))
        for n in g:
            counts[n] = c
    expanded = [axes.expand_with_counts(e, counts) for e in m["exprs"]]
    return {"values": w, "expanded": expanded}


def write_replay(m, res):
    import hashlib

    spec = {"api": m["api"], "desc": m["desc"], "shapes": m["shapes"], "kwargs": runner.jsonable(m["kwargs"]), "kind": res["kind"]}
    spec["witness"] = [witness_payload(m, w) for w in res.get("witness", [])]
    if res["kind"] == "accepted-but-no-assignment-exists":
        vecs, ell_names = axes.count_vectors(m["exprs"], m["shapes"], m["kwargs"])
        hi_all = max([max(s) for s in m["shapes"] if s] + [6])
        exps, total = [], 0
        for counts in vecs:
            ex = [axes.expand_with_counts(e, counts) for e in m["exprs"]]
            nm = []

            def rec(items):
                for it in items:
                    if it[0] == "ax":
                        k = it[1] if it[2] is None else f"{it[1]}.{it[2]}"
                        if k not in nm:
                            nm.append(k)
                    elif it[0] in ("grp", "brk", "cat"):
                        rec(it[1])

            for e in ex:
                rec(e)
            total += max(hi_all, 1) ** len(nm)
            exps.append({"names": nm, "expanded": ex})
        if total <= 300000:
            spec["brute"] = {"names": True, "bounds": collections.defaultdict(lambda: hi_all), "expansions": exps}
            spec["brute"]["bounds"] = {n: hi_all for e in exps for n in e["names"]}
        else:
            spec["brute"] = {"names": None, "bounds": {}, "expansions": []}
    text = json.dumps(runner.jsonable(spec))
    os.makedirs(os.path.join(runner.REPLAY_DIR, PROP), exist_ok=True)
    path = os.path.join(runner.REPLAY_DIR, PROP, "solve_" + hashlib.sha1(text.encode()).hexdigest()[:12] + ".py")
    with open(path, "w") as f:
        f.write(REPLAY.format(spec=text))
    return path


def work(item):
    m, timeout_ms = item
    res = judge(m, timeout_ms)
    if res["status"] == "violation?":
        path = write_replay(m, res)
        ok, out = replay.run_script(path)
        res["replay"], res["replay_out"] = path, out[-1200:]
        res["status"] = "violation" if ok else "not-reproduced"
    return res


def signature(m, res):
    return {"api": m["api"], "desc": m["desc"], "shapes": runner.jsonable(m["shapes"]), "kwargs": runner.jsonable(m["kwargs"]), "kind": res.get("kind"), "cse_relaxation_feasible": res.get("cse_relaxation_feasible")}


def main():
    tier, seed = runner.tier(), runner.seed()
    rep = runner.Report(PROP, "other")
    rng = random.Random(f"c02:{seed}")
    members, seen = [], set()
    tries = 0
    while len(members) < N[tier] and tries < N[tier] * 10:
        tries += 1
        try:
            m = gen_member(rng, tries)
        except (ValueError, IndexError, NotImplementedError):
            continue
        if m is None:
            continue
        key = (m["api"], m["desc"], str(m["shapes"]), str(sorted(m["kwargs"].items())))
        if key in seen:
            continue
        seen.add(key)
        members.append(m)
    members += fixed_members()
    tm = template_members()
    if tier == "quick":
        tm = random.Random(f"c02t:{seed}").sample(tm, TEMPLATE_N)
    members += tm
    seen_t = set()
    for m in cse_templates():
        key = (m["api"], m["desc"], str(m["shapes"]), str(sorted(m["kwargs"].items())))
        if key not in seen_t:
            seen_t.add(key)
            members.append(m)
    results = runner.pmap(work, [(m, Z3_TIMEOUT[tier]) for m in members], chunksize=8)
    status = collections.Counter()
    by_tag = collections.defaultdict(collections.Counter)
    kinds = collections.Counter()
    outcomes = collections.Counter()
    queries, solver_s = 0, 0.0
    samples, nontrivial = [], set()
    twin_ok = False
    for m, r in zip(members, results):
        st = r["status"]
        status[st] += 1
        by_tag[m["tag"]][st] += 1
        queries += r.get("queries", 0)
        solver_s += r.get("solver_s", 0.0)
        if "einx" in r:
            outcomes[(m["api"], r["einx"]["outcome"] if r["einx"]["outcome"] == "ok" else r["einx"].get("class"))] += 1
        if st == "holds":
            nontrivial.add((m["api"], m["desc"], str(m["shapes"]), str(m["kwargs"])))
            if len(samples) < 10 and r.get("satisfiable_count_vectors", 0) >= 1 and m["tag"] != "consistent":
                samples.append({"call": f"einx.{m['api']}({m['desc']!r}, shapes={m['shapes']}, **{runner.jsonable(m['kwargs'])})", "edit": m["tag"], "einx": r["einx"], "satisfiable_count_vectors": r["satisfiable_count_vectors"], "z3_queries": r["queries"]})
        elif st == "violation":
            kinds[r["kind"].split(":")[0]] += 1
            rep.violation(signature(m, r), r["replay"], f"einx.{m['api']}({m['desc']!r}, shapes={m['shapes']}, **{runner.jsonable(m['kwargs'])}) [{m['tag']}]: {r['kind']}; einx -> {r['einx']}\n{r.get('replay_out', '')[-500:]}")
        elif st == "not-reproduced":
            rep.harness_error(f"C02 finding did not reproduce: {m['api']} {m['desc']!r} {m['shapes']} {m['kwargs']} kind={r.get('kind')} {r.get('replay_out', '')[-400:]}")
        elif st == "harness-error":
            rep.harness_error(f"{r.get('error')} {r.get('trace', '')[-800:]}")
        else:
            rep.inconclusive.append({"why": r.get("why", st), "call": f"{m['api']}({m['desc']!r})", "shapes": m["shapes"]})
    # vacuity twin: a reported value with one entry incremented must be rejected by the same adjudication
    tw = vacuity_twin(Z3_TIMEOUT[tier])
    if tw != "violation?":
        rep.harness_error(f"vacuity twin (reported value incremented) came back {tw!r}")
    rep.coverage = {
        "explanation": "z3 decides, for every member (expression list, shapes incl. unknown ones, keyword sizes; consistent, single-edit corrupted and >= 2**31 variants), the set of positive-integer assignments per ellipsis-count vector; einx's solve_axes/solve_shapes/matches outcome is judged against it (soundness, must-fail, must-succeed by reference unit propagation, exactness).",
        "evaluations": len(members),
        "distinct_nontrivial": len(nontrivial),
        "rule": "one member = (API, description, shapes, keyword sizes); non-trivial = einx's outcome is consistent with z3's verdicts on all count vectors (every uniqueness query unsat)",
        "samples": samples,
        "status_counts": dict(status),
        "by_edit": {k: dict(v) for k, v in by_tag.items()},
        "violation_kinds": dict(kinds),
        "einx_outcomes": {f"{a}:{b}": n for (a, b), n in outcomes.items()},
        "z3_queries": queries,
        "solver_time_s": round(solver_s, 3),
        "vacuity_twin": tw,
        "bounds": {"ellipsis_repetitions_max": axes.MAX_REPS, "expressions_max": 3, "axis_lengths": "1..6, plus factors 2**16 / 2**31 / 2**31+7 / 2**33", "z3_timeout_ms": Z3_TIMEOUT[tier]},
        "functions_encoded": "constraint systems are built from the structured description (vlib/axes.py); einx runs for real: frontend/util.py, namedtensor/solve.py, stage2/solve.py, stage2/cse.py, stage3/solve.py, util/solver.py",
    }
    rep.assumptions = [
        "ellipsis repetition counts <= 4 (count vectors beyond are outside the claim)",
        "nested ellipses are outside",
        "shapes inside operations (einx.id(..., graph=True)) are covered by C01's shape comparison, not here",
    ]
    rep.finish()


def fixed_members():
    """The documented examples and the property's own boundary cases (always included)."""
    A = lambda n, s: Ax(n, s)
    out = []

    def mem(exprs, shapes, kw, api, tag):
        out.append({"exprs": tuple(exprs), "shapes": shapes, "kwargs": kw, "api": api, "tag": tag, "desc": ", ".join(show_expr(e) for e in exprs)})

    for api in ("solve_axes", "solve_shapes", "matches"):
        mem([(Grp((A("b", 1), Num(3))),)], [(4,)], {}, api, "fixed:divisibility")
        mem([(Grp((A("a", 1), A("b", 1))),)], [None], {"a": 65536, "b": 65536}, api, "fixed:2**32-product")
        mem([(Cat((A("a", 1), A("b", 1))), A("c", 4))], [(1, 4)], {}, api, "fixed:sum-positivity")
        mem([(Cat((A("a", 1), A("b", 1))), A("c", 4))], [(5, 4)], {"b": 3}, api, "fixed:doc")
        mem([(A("a", 2), A("b", 3)), (A("c", 1), A("b", 3), A("a", 2))], [(2, 3), None], {"c": 3}, api, "fixed:doc")
        mem([(A("a", 2), Num(3))], [(2, 3)], {}, api, "fixed:number")
        mem([(A("a", 2**31), A("b", 3))], [(2**31, 3)], {}, api, "fixed:2**31-dimension")
        mem([(A("a", 1),)], [None], {"a": 2**31}, api, "fixed:2**31-keyword")
        mem([(Grp((A("a", 2), A("b", 3))),), (Grp((A("b", 3), A("c", 5))),), (Grp((A("a", 2), A("c", 5))),)], [(6,), (15,), (10,)], {}, api, "fixed:nonlinear-unique")
        # many axes / long decimal sizes: whatever text einx builds internally for shapes and sizes must not depend on their length
        for n_ax, size in ((14, 54321), (16, 10007), (24, 123456), (40, 1), (40, 7)):
            names = [f"x{i}" for i in range(n_ax)]
            mem([tuple(A(n, size + i) for i, n in enumerate(names))], [tuple(size + i for i in range(n_ax))], {}, api, "fixed:many-axes")
            mem([tuple(A(n, size + i) for i, n in enumerate(names))], [None], {n: size + i for i, n in enumerate(names)}, api, "fixed:many-keywords")
    return out


def template_members():
    """Shared-axis templates: an axis occurs in two sums/products, so a contradiction only shows after one
    substitution step. Every subset of keyword sizes x every single edit (keyword +1 / *3+7, dimension +1 / *2 /
    -> 1) x the three APIs; all of them judged by the same z3 adjudication."""
    import itertools

    def build(sz):
        a, b, c = (Ax(n, sz[n]) for n in "abc")
        return [
            [(Cat((a, b)), Cat((b, c)))],
            [(Cat((a, b)), Grp((b, c)))],
            [(Grp((a, b)), Cat((b, c)))],
            [(Cat((a, b)), Cat((a, c)))],
            [(Grp((a, b)), Grp((b, c)))],
            [(Cat((a, b)), c), (Cat((b, c)),)],
            [(Cat((a, b, c)), Grp((a, b)))],
            [(Cat((a, b)),), (Cat((b, c)),), (Cat((a, c)),)],
            [(Grp((a, Cat((b, c)))), Cat((b, Num(1))))],
            [(Cat((a, Num(1))), Grp((a, Num(2))), b)],
            [(a, Cat((a, b))), (Grp((b, c)),)],
            [(Grp((a, b)), c), (Cat((c, a)), b)],
        ]

    out = []
    for sz in ({"a": 2, "b": 3, "c": 4}, {"a": 1, "b": 1, "c": 2}, {"a": 3, "b": 2, "c": 2}):
        for exprs in build(sz):
            names = sorted({l.name for e in exprs for l, _ in leaves(expand(e)) if isinstance(l, Ax)})
            shapes0 = [tuple(shape(expand(e))) for e in exprs]
            for r in range(len(names) + 1):
                for given in itertools.combinations(names, r):
                    kw0 = {n: sz[n] for n in given}
                    edits = [("none", None, None)]
                    for n in given:
                        edits += [("kw+1", n, sz[n] + 1), ("kw*3+7", n, sz[n] * 3 + 7), ("kw->0", n, 0)]
                    for i, s_ in enumerate(shapes0):
                        for j, d in enumerate(s_):
                            edits += [("dim+1", (i, j), d + 1), ("dim*2", (i, j), d * 2), ("dim->0", (i, j), 0)] + ([("dim->1", (i, j), 1)] if d != 1 else [])
                    for tag, where, val in edits:
                        kw, shapes = dict(kw0), list(shapes0)
                        if tag.startswith("kw"):
                            kw[where] = val
                        elif tag.startswith("dim"):
                            s_ = list(shapes[where[0]])
                            s_[where[1]] = val
                            shapes[where[0]] = tuple(s_)
                        for api in ("solve_axes", "solve_shapes", "matches"):
                            out.append({"exprs": tuple(exprs), "shapes": shapes, "kwargs": kw, "api": api, "tag": "template:" + tag, "desc": ", ".join(show_expr(e) for e in exprs)})
    return out


def cse_templates():
    """Several flattened groups with runs of axes that occur nowhere else (einx merges each run into one axis before
    solving): every subset of known shapes x keyword variants x the three APIs. The runs are independent of each
    other - a solver that ties two of them together 'resolves' an under-determined member or rejects a consistent one."""
    import itertools

    sz = {"a": 1, "b": 3, "c": 2, "e": 2, "f": 2, "g": 5}
    a, b, c, e, f, g = (Ax(n, sz[n]) for n in "abcefg")
    structures = [
        [(Grp((a, b, c)),), (Grp((e, f, g)),), (c,), (g,)],
        [(Grp((a, b, c)),), (Grp((a, b)), c)],
        [(Grp((a, b, c)),), (Grp((e, f, g)),), (Grp((a, b)), Grp((e, f)))],
        [(Grp((a, b, c)), Grp((e, f, g))), (c, g)],
        [(Grp((a, b, c)),), (Grp((e, f, c)),), (c,)],
        # a group that occurs nested first and as separate (bracketed) root-level axes later: the axes stay unknowns
        [(e, Brk((Grp((b, c)),))), (e, Brk((b, c)))],
        [(Brk((Grp((b, c)),)), f), (Brk((b, c)), f)],
    ]
    out = []
    for exprs in structures:
        shapes0 = [tuple(shape(expand(x))) for x in exprs]
        for known in itertools.product([True, False], repeat=len(exprs)):
            if not any(known):
                continue
            shapes = [s if k else None for s, k in zip(shapes0, known)]
            for kw in ({}, {"c": sz["c"]}, {"c": sz["c"], "g": sz["g"]}):
                names = {l.name for x in exprs for l, _ in leaves(expand(x)) if isinstance(l, Ax)}
                kw = {k: v for k, v in kw.items() if k in names}
                for api in ("solve_shapes", "matches", "solve_axes"):
                    out.append({"exprs": tuple(exprs), "shapes": shapes, "kwargs": dict(kw), "api": api, "tag": "template:cse-runs", "desc": ", ".join(show_expr(x) for x in exprs)})
    return out


def vacuity_twin(timeout_ms):
    m = {"exprs": ((Ax("a", 2), Grp((Ax("b", 3), Ax("c", 2)))),), "shapes": [(2, 6)], "kwargs": {"b": 3}, "api": "solve_axes", "tag": "twin", "desc": "a (b c)"}
    global call_einx
    orig = call_einx
    try:
        call_einx = lambda mm: {"outcome": "ok", "value": {"a": 2, "b": 3, "c": 3}}  # c incremented
        return judge(m, timeout_ms)["status"]
    finally:
        call_einx = orig


if __name__ == "__main__":
    main()
