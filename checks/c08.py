"""C08 — equivariance under renaming, permutation, (un)grouping, inversion and composition.

Pairs (or chains) of public einx calls on the *same* symbolic tensors; z3 proves the stated relation between
the results for all contents. See DESIGN.md §3 C08.
"""

import collections
import re
import random

import numpy as np

from vlib import family, harness, prove, relational as R, replay, runner, selftest, symarray as S
from vlib.desc import Ax, Num, Grp, Cat, Brk, Ell, expand, shape, leaves

PROP = "C08"
FAMS = {"id": 140, "elementwise": 90, "reduce": 90, "dot": 60, "get_at": 45, "preserve": 60, "argfind": 35, "update": 40}
THOROUGH_MULT = 10
TOL_OPS = replay.FLOAT_OPS


def kw_of(case):
    kw = dict(case["kwargs"])
    kw.update(case["opts"])
    return kw


def explicit_out(case):
    return case["form"] in ("explicit", "implicit-brackets")


def transforms(case, rng):
    """Yield (name, chain_a, chain_b, post_a, extra arrays builder) descriptions."""
    n = len(case["ins"])
    op, fam = case["op"], case["family"]
    base_args = list(range(n))
    out = []
    # 1. renaming
    mp = R.make_renaming(case, rng)
    kw_b = {mp.get(k, k): v for k, v in case["kwargs"].items()}
    kw_b.update(case["opts"])
    out.append(("rename", [(op, case["desc"], base_args, kw_of(case), None)], [(op, R.rename_string(case["desc"], mp), base_args, kw_b, None)], None, []))
    mp2 = R.make_renaming_lexical(case, rng)
    kw_b2 = {mp2.get(k, k): v for k, v in case["kwargs"].items()}
    kw_b2.update(case["opts"])
    out.append(("rename-lexical", [(op, case["desc"], base_args, kw_of(case), None)], [(op, R.rename_string(case["desc"], mp2), base_args, kw_b2, None)], None, []))
    if explicit_out(case):
        # 2. input permutation
        cand = [i for i in range(n) if len(case["ins"][i]) >= 2]
        if cand:
            i = rng.choice(cand)
            pe = R.permute_expr(case["ins"][i], rng)
            if pe is not None:
                new_e, perm = pe
                ins_b = list(case["ins"])
                ins_b[i] = new_e
                args_b = list(base_args)
                args_b[i] = n  # derived array index
                out.append(("permute-input", [(op, case["desc"], base_args, kw_of(case), None)], [(op, family.render(ins_b, case["outs"], case["form"]), args_b, kw_of(case), None)], None, [("transpose", i, perm)]))
        # 3. output permutation
        k = rng.randrange(len(case["outs"]))
        pe = R.permute_expr(case["outs"][k], rng)
        if pe is not None and fam != "update":
            new_e, perm = pe
            outs_b = list(case["outs"])
            outs_b[k] = new_e
            post = [[] for _ in case["outs"]]
            post[k] = [("transpose", perm)]
            out.append(("permute-output", [(op, case["desc"], base_args, kw_of(case), None)], [(op, family.render(case["ins"], outs_b, case["form"]), base_args, kw_of(case), None)], post, []))
        # 4. grouping / ungrouping of an input
        i = rng.randrange(n)
        for nm, fn in (("group-input", R.group_expr), ("ungroup-input", R.ungroup_expr)):
            ne = fn(case["ins"][i], rng)
            if ne is not None and not any(isinstance(x, Ell) for x in R._walk(case["ins"][i])):
                ins_b = list(case["ins"])
                ins_b[i] = ne
                args_b = list(base_args)
                args_b[i] = n
                kwb = dict(R.all_sizes_kwargs(case, list(case["ins"]) + list(case["outs"])))
                kwb.update(case["opts"])
                out.append((nm, [(op, case["desc"], base_args, kw_of(case), None)], [(op, family.render(ins_b, case["outs"], case["form"]), args_b, kwb, None)], None, [("reshape", i, list(shape(expand(ne))))]))
        # 5. grouping / ungrouping of an output
        k = rng.randrange(len(case["outs"]))
        for nm, fn in (("group-output", R.group_expr), ("ungroup-output", R.ungroup_expr)):
            ne = fn(case["outs"][k], rng)
            if ne is not None and fam != "update" and not any(isinstance(x, Ell) for x in R._walk(case["outs"][k])):
                outs_b = list(case["outs"])
                outs_b[k] = ne
                post = [[] for _ in case["outs"]]
                post[k] = [("reshape", list(shape(expand(ne))))]
                kwb = dict(R.all_sizes_kwargs(case, list(case["ins"]) + list(case["outs"])))
                kwb.update(case["opts"])
                out.append((nm, [(op, case["desc"], base_args, kw_of(case), None)], [(op, family.render(case["ins"], outs_b, case["form"]), base_args, kwb, None)], post, []))
    if fam == "id":
        names_in = [l.name for e in case["ins"] for l, _ in leaves(expand(e)) if isinstance(l, Ax)]
        names_out = {l.name for e in case["outs"] for l, _ in leaves(expand(e)) if isinstance(l, Ax)}
        nums_out = [l for e in case["outs"] for l, _ in leaves(expand(e)) if isinstance(l, Num) and l.size != 1]
        per_in_unique = all(len(x) == len(set(x)) for x in [[l.name for l, _ in leaves(expand(e)) if isinstance(l, Ax)] for e in case["ins"]])
        nums_in_cat = any(isinstance(p, Num) for e in list(case["ins"]) + list(case["outs"]) for it in R._walk(e) if isinstance(it, Cat) for p in it.parts)
        anon_ell = any(isinstance(x, Ell) and x.anon for e in list(case["ins"]) + list(case["outs"]) for x in R._walk(e))
        if names_out <= set(names_in) and not nums_out and per_in_unique and not nums_in_cat and not anon_ell:
            kw_all = R.all_sizes_kwargs(case, list(case["ins"]) + list(case["outs"]))
            inv = family.show_op(case["outs"], case["ins"])
            out.append(("inverse", [("id", case["desc"], base_args, kw_of(case), None), ("id", inv, "PREV", kw_all, None)], [("__input__", "", base_args, {}, None)], None, []))
            if len(case["ins"]) == 1 and len(case["outs"]) == 1 and not any(isinstance(x, (Ell, Cat)) for x in R._walk(case["outs"][0])):
                g = family.Gen(rng.random())
                lv = [l for l, _ in leaves(case["outs"][0]) if isinstance(l, Ax)]
                lv = list({l.name: l for l in lv}.values())
                third = g.layout(lv)
                d2 = family.show_op(case["outs"], [third])
                d3 = family.show_op(case["ins"], [third])
                out.append(("composition", [("id", case["desc"], base_args, kw_of(case), None), ("id", d2, "PREV", kw_all, None)], [("id", d3, base_args, kw_all, None)], None, []))
    return out


def work(item):
    case, seed, timeout_ms = item
    rng = random.Random(f"{seed}:{case['desc']}:{case['op']}")
    arrs0 = harness.build_inputs(case)
    results = []
    for name, chain_a, chain_b, post, derived in transforms(case, rng):
        arrs = list(arrs0)
        for d in derived:
            if d[0] == "transpose":
                arrs.append(np.transpose(arrs0[d[1]], d[2]))
            else:
                arrs.append(np.reshape(arrs0[d[1]], d[2]))
        kinds = list(case["kinds"]) + [case["kinds"][d[1]] for d in derived]
        n_out = len(case["outs"])
        post_a = post if post is not None else [[] for _ in range(max(n_out, len(case["ins"])))]
        title = f"{name}: einx.{case['op']}({case['desc']!r}) vs {chain_b[0][1]!r}"
        if case["family"] == "update" and case["op"] == "set_at":
            continue
        r = R.decide_pair(PROP, title, expand_chain(chain_a, len(case["ins"])), expand_chain(chain_b, len(case["ins"])), post_a, arrs, harness.coord_assumptions(case, arrs0), timeout_ms, kinds=kinds, tol_ops=case["op"] in TOL_OPS)
        r["transform"] = name
        r["all_unit"] = all(l.size == 1 for e in case["ins"] for l, _ in leaves(expand(e)))
        r["op"] = case["op"]
        r["desc"] = case["desc"]
        r["desc_b"] = chain_b[0][1]
        r["tags"] = case["tags"]
        results.append(r)
    return {"status": "done", "results": results}


def two_concats(desc):
    """Some tensor expression of the description holds two or more concatenated axes."""
    for side in desc.split("->"):
        for expr in side.split(","):
            if len(re.findall(r"\([^()]*\+[^()]*\)", expr)) >= 2:
                return True
    return False


def expand_chain(chain, n):
    return [(op, desc, args, kw, be) for op, desc, args, kw, be in chain]


def vacuity(case):
    """Twin: the input is NOT transposed although its expression is permuted; must be refuted when two
    permuted axes have equal length."""
    rng = random.Random(0)
    for _ in range(20):
        i = rng.randrange(len(case["ins"]))
        pe = R.permute_expr(case["ins"][i], rng)
        if pe is None:
            continue
        new_e, perm = pe
        sh = shape(expand(case["ins"][i]))
        if tuple(sh[p] for p in perm) != tuple(sh) or perm == list(range(len(perm))):
            continue
        if not any(p != k and sh[k] > 1 for k, p in enumerate(perm)):
            continue
        ins_b = list(case["ins"])
        ins_b[i] = new_e
        arrs = harness.build_inputs(case)
        a = list(range(len(arrs)))
        r = R.decide_pair(PROP + "-twin", "twin", [(case["op"], case["desc"], a, kw_of(case), None)], [(case["op"], family.render(ins_b, case["outs"], case["form"]), a, kw_of(case), None)], [[] for _ in case["outs"]], arrs, [], 10000, kinds=case["kinds"])
        return r["status"]
    return None


def main():
    tier, seed = runner.tier(), runner.seed()
    rep = runner.Report(PROP, "translation_validation")
    st = selftest.run(seed)
    if st["failures"]:
        rep.harness_error("primitive model self-test failed: " + "; ".join(st["failures"][:5]))
    mult = THOROUGH_MULT if tier == "thorough" else 1
    timeout_ms = 60000 if tier == "thorough" else 15000
    items = []
    all_cases = []
    for fam, n in FAMS.items():
        cs = family.generate(fam, n * mult, seed + 8, tier)
        if fam == "argfind":
            cs = cs + family.exhaustive("argfind-brackets")  # every bracket pattern of three axes incl. unit axes
        all_cases.extend(cs)
        items.extend((c, seed, timeout_ms) for c in cs)
    results = runner.pmap(work, items, chunksize=4)
    status = collections.Counter()
    by_transform = collections.defaultdict(collections.Counter)
    samples, nontrivial = [], set()
    solver_s = 0.0
    n_pairs = 0
    for (case, _, _), wr in zip(items, results):
        if wr.get("status") == "harness-error":
            rep.harness_error(f"{wr.get('error')} {wr.get('trace', '')[-800:]}")
            continue
        for r in wr["results"]:
            n_pairs += 1
            st_ = r["status"]
            status[st_] += 1
            by_transform[r["transform"]][st_] += 1
            solver_s += r.get("solver_s", 0.0)
            if st_ == "holds":
                nontrivial.add((r["transform"], r["op"], r["desc"], r["desc_b"]))
                if len(samples) < 14 and len(by_transform[r["transform"]]) and by_transform[r["transform"]]["holds"] <= 2:
                    samples.append({"transform": r["transform"], "call_a": f"einx.{r['op']}({r['desc']!r})", "call_b": r["desc_b"], "verdict": r.get("verdict")})
            elif st_ == "violation":
                sig = {"transform": r["transform"], "op": r["op"], "desc": r["desc"], "desc_b": r["desc_b"]}
                err = str(r.get("error", ""))
                # mechanism fields (known_findings.json): one side is rejected by einx.id's positional pairing of the
                # blocks of an expression with two concatenated axes
                # same mechanism, other symptom: when every axis has length 1 the compatibility test of the block pairing is skipped
                # (it ignores unit axes), so the positionally paired blocks are placed silently
                sig["positional_block_pairing_unit_axes_wrong_placement"] = bool(r["op"] == "id" and r["transform"] in ("permute-input", "permute-output") and two_concats(r["desc"]) and r.get("all_unit") and "SemanticError" not in err)
                sig["one_side_rejected_by_positional_block_pairing"] = bool(
                    r["op"] == "id" and r["transform"] in ("permute-input", "permute-output") and "SemanticError" in err and "after decomposition of axis concatenations" in err and two_concats(r["desc"])
                )
                rep.violation(sig, r["replay"], f"{r['title']}\n{r.get('replay_out', '')[-700:]}")
            elif st_ == "not-reproduced":
                if r["op"] in TOL_OPS or r["op"] in ("logaddexp",):
                    rep.inconclusive.append({"why": "sat under uninterpreted exp/log/sqrt or nonlinear reals; floating-point replay agrees", "title": r["title"]})
                else:
                    rep.harness_error(f"counterexample did not reproduce: {r['title']} replay={r.get('replay')} {r.get('replay_out', '')[-300:]}")
            elif st_ in ("unknown", "unmodelled"):
                rep.inconclusive.append({"why": st_, "title": r["title"]})
    # vacuity twin
    tw = None
    for c in all_cases:
        if c["family"] in ("id", "elementwise") and explicit_out(c):
            t = vacuity(c)
            if t is not None:
                tw = t
            if t == "violation":
                break
    if tw != "violation":
        rep.harness_error(f"vacuity twin (expression permuted, tensor not transposed) came back {tw!r}, expected a reproduced violation")
    rep.coverage = {
        "programs": n_pairs,
        "disagreements_checked": status["violation"] + status["not-reproduced"],
        "samples": samples,
        "evaluations": n_pairs,
        "distinct_nontrivial": len(nontrivial),
        "rule": "one harness = (transformation, operation, description A, description B) on shared symbolic tensors; non-trivial = both calls accepted and z3 proved the relation for all contents",
        "status_counts": dict(status),
        "by_transformation": {k: dict(v) for k, v in by_transform.items()},
        "solver_time_s": round(solver_s, 3),
        "vacuity_twin": tw,
        "model_selftest": {"checks": st["checks"], "failures": len(st["failures"])},
        "bounds": family.Bounds(tier).as_dict(),
    }
    rep.assumptions = [
        "tensor contents are mathematical integers/reals; coordinates in range",
        "set_at is excluded from C08 (the winner among duplicate updates is left open by C14 and may legitimately depend on axis order)",
        "one transformation instance per (case, kind), drawn with the run's seed",
    ]
    rep.finish()


if __name__ == "__main__":
    main()
