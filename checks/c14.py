"""C14 — indexed updates apply every update exactly once and touch nothing else.

set_at / add_at / subtract_at run through the real pipeline on SymArrays with *symbolic coordinate
tensors* (duplicates allowed — the solver picks them); the assertion is stated per target position straight
from the property text (vlib/refsem.py:update_formula). Round trip get_at(set_at(...)) is decided too.
"""

import collections
import time

import numpy as np
import z3

from vlib import elem, family, harness, prove, refsem, replay, runner, selftest, symarray as S
from vlib.desc import expand, shape, show_op

PROP = "C14"
QUICK_N = 330
THOROUGH_N = 4000
MAX_SLOTS = {"quick": 8, "thorough": 16}
MAX_TARGET = {"quick": 24, "thorough": 48}


def n_slots(case):
    arrs = [np.zeros(shape(expand(e)), dtype=object) for e in case["ins"]]
    ins = [(expand(e), a) for e, a in zip(case["ins"], arrs)]
    return len(refsem.update_slots(ins, None))


def work(item):
    case, backend, timeout_ms, mode = item
    if mode == "roundtrip":
        return roundtrip(case, backend, timeout_ms)
    if mode == "twin":
        return twin(case, backend, timeout_ms)
    r = harness.decide(case, backend, timeout_ms=timeout_ms)
    r["mode"] = mode
    r["tags"] = case["tags"]
    r["kwargs"] = runner.jsonable(case["kwargs"])
    r["shapes"] = [list(shape(expand(e))) for e in case["ins"]]
    if r["status"] == "violation?":
        ok, path, out = replay.replay_case(PROP, case, backend, r.pop("model_inputs"))
        r["replay"], r["replay_out"] = path, out[-1500:]
        r["status"] = "violation" if ok else "not-reproduced"
    r.pop("model_inputs", None)
    return r


def twin(case, backend, timeout_ms):
    """Vacuity twin: a reference that drops the last update slot must be refuted (sat) whenever the
    dropped slot can matter."""
    arrs = harness.build_inputs(case)
    snap = [S.wrap(S.plain(a).copy()) for a in arrs]
    out = harness.call(case, arrs, backend)
    ins = harness.sem_ins(case, snap)
    orig = refsem.update_slots
    try:
        refsem.update_slots = lambda i, o: orig(i, o)[:-1]
        f = refsem.update_formula(case["op"], ins, harness.sem_outs(case)[0], S.plain(out))
    finally:
        refsem.update_slots = orig
    v, _, dt = prove.prove(f, harness.coord_assumptions(case, snap), timeout_ms)
    return {"status": "twin", "verdict": v, "mode": "twin", "desc": case["desc"], "op": case["op"]}


def roundtrip(case, backend, timeout_ms):
    """get_at with the same coordinates reads back what set_at wrote: for every update slot u the value
    read is one of the update values whose slot addresses the same element."""
    import einx

    arrs = harness.build_inputs(case)
    snap = [S.wrap(S.plain(a).copy()) for a in arrs]
    res = {"mode": "roundtrip", "desc": case["desc"], "op": "set_at", "backend": backend}
    try:
        out = harness.call(case, arrs, backend)
    except Exception as e:  # noqa: BLE001
        res["status"] = harness.classify_exception(e)
        return res
    # read back: "<target>, <coords...> -> <joined un-bracketed axes of coords and updates and target>"
    ins = harness.sem_ins(case, snap)
    et = ins[0][0]
    coords = ins[1:-1]
    eu, au = ins[-1]
    loops = []
    for e, _ in list(coords) + [(eu, au), (et, None)]:
        loops.extend(refsem.loop_leaves(refsem.active_leaves(e, {}), False))
    loops = refsem._uniq(loops)
    from vlib.desc import Ax, Num

    # only axes with names can be written in an output expression
    if any(not isinstance(k, str) for k, _ in loops):
        res["status"] = "skipped"
        return res
    out_expr = tuple(Ax(k, s) for k, s in loops)
    # the result of set_at has the layout of the OUTPUT expression (which may re-order the target's axes)
    desc = show_op([case["outs"][0]] + list(case["ins"][1:-1]), [out_expr])
    kw = dict(case["kwargs"])
    try:
        back = einx.get_at(desc, out, *snap[1:-1], backend=backend, **kw)
    except Exception as e:  # noqa: BLE001
        res["status"] = "roundtrip-" + harness.classify_exception(e)
        res["error"] = str(e)[:300]
        return res
    back = S.plain(harness.wrapnd(back))
    slots = refsem.update_slots(ins, None)
    parts = []
    for env, cs, uval in slots:
        b = back[tuple(env[k] for k, _ in loops)]
        alts = []
        for env2, cs2, uval2 in slots:
            # same target element: same vectorised target axes and equal coordinates
            tkeys = [k for k, _ in refsem.loop_leaves(refsem.active_leaves(et, {}), False)]
            if any(env[k] != env2[k] for k in tkeys):
                continue
            same = elem.fold(elem.logical_and, [elem.eq(a, c) for a, c in zip(cs, cs2)], True)
            alts.append(elem.logical_and(same, elem.eq(b, uval2)))
        parts.append(elem.z(elem.fold(elem.logical_or, alts, False)))
    f = z3.And(*parts) if parts else z3.BoolVal(True)
    v, model, dt = prove.prove(f, harness.coord_assumptions(case, snap), timeout_ms)
    res["verdict"], res["solver_s"] = v, dt
    res["status"] = {"unsat": "holds", "sat": "roundtrip-violation?", "unknown": "unknown"}[v]
    if v == "sat":
        # replay: concrete set_at then get_at through the public API
        conc = replay.clamp_coords(case, replay.conc_arrays(case, [prove.concretise(a, model) for a in snap]))
        cins = [(expand(e), a) for e, a in zip(case["ins"], conc)]
        cslots = refsem.update_slots(cins, None)
        tkeys = [k for k, _ in refsem.loop_leaves(refsem.active_leaves(et, {}), False)]
        groups = []
        for env, cs, uval in cslots:
            allowed = []
            for env2, cs2, uval2 in cslots:
                if any(env[k] != env2[k] for k in tkeys):
                    continue
                if all(int(a) == int(c) for a, c in zip(cs, cs2)):
                    allowed.append([replay._val(uval2)])
            groups.append({"positions": [[env[k] for k, _ in loops]], "allowed": allowed})
        spec = {
            "set": replay.call_spec(case, conc, backend),
            "get_desc": desc,
            "loops": [k for k, _ in loops],
            "groups": groups,
        }
        path = write_roundtrip_script(spec)
        ok, outtxt = replay.run_script(path)
        res["replay"], res["replay_out"] = path, outtxt[-1500:]
        res["status"] = "violation" if ok else "not-reproduced"
    return res


RT_TEMPLATE = r'''#!/venv/bin/python
"""Replay (C14 round trip): get_at with the same coordinates must read back a value set_at wrote."""
import json, os, sys, itertools
HASHSEED = "{hashseed}"
if os.environ.get("PYTHONHASHSEED") != HASHSEED:
    os.environ["PYTHONHASHSEED"] = HASHSEED
    os.execv(sys.executable, [sys.executable] + sys.argv)
import numpy as np
sys.path.insert(0, "/repo")
import einx
SPEC = json.loads(r"""{spec}""")
def arr(a): return np.array(a["data"], dtype=a["dtype"]).reshape(a["shape"])
def tup(v): return tuple(tup(x) for x in v) if isinstance(v, list) else v
c = SPEC["set"]
args = [arr(a) for a in c["args"]]
kw = {{k: tup(v) for k, v in c["kwargs"].items()}}
if c.get("backend"): kw["backend"] = c["backend"]
tgt0 = args[0].copy()
out = einx.set_at(c["desc"], args[0].copy(), *args[1:], **kw)
back = einx.get_at(SPEC["get_desc"], out, *args[1:-1], **kw)
upd = args[-1]
back = np.asarray(back)
print("set_at:", c["desc"], "get_at:", SPEC["get_desc"])
print("coords:", [np.asarray(a).tolist() for a in args[1:-1]], "updates:", np.asarray(upd).tolist(), "read back:", back.tolist())
for g in SPEC["groups"]:
    got = back[tuple(g["positions"][0])].item()
    if not any(got == alt[0] for alt in g["allowed"]):
        print("REPRODUCED: at loop indices %r get_at read back %r; the updates addressing that element are %r" % (g["positions"][0], got, g["allowed"]))
        sys.exit(1)
print("NOT-REPRODUCED")
sys.exit(0)
'''


def write_roundtrip_script(spec):
    import hashlib, json, os

    os.makedirs(os.path.join(runner.REPLAY_DIR, PROP), exist_ok=True)
    text = json.dumps(runner.jsonable(spec))
    path = os.path.join(runner.REPLAY_DIR, PROP, "rt_" + hashlib.sha1(text.encode()).hexdigest()[:12] + ".py")
    with open(path, "w") as f:
        f.write(RT_TEMPLATE.format(spec=text, hashseed=os.environ.get("PYTHONHASHSEED", "0")))
    return path


def main():
    family.SAME_NAME_BRACKETS = True
    family.UINT8_UPDATES = True
    tier, seed = runner.tier(), runner.seed()
    rep = runner.Report(PROP, "translation_validation")
    st = selftest.run(seed)
    if st["failures"]:
        rep.harness_error("primitive model self-test failed: " + "; ".join(st["failures"][:5]))
    n = THOROUGH_N if tier == "thorough" else QUICK_N
    timeout_ms = 60000 if tier == "thorough" else 15000
    cases = []
    for c in family.generate("update", n * 3, seed, tier):
        tsz = int(np.prod(shape(expand(c["ins"][0]))))
        if tsz <= MAX_TARGET[tier] and n_slots(c) <= MAX_SLOTS[tier]:
            cases.append(c)
        if len(cases) >= n:
            break
    items = []
    for c in cases:
        for b in ["numpy", "numpy.numpylike"]:
            items.append((c, b, timeout_ms, "main"))
    rt_cases = [c for c in cases if c["op"] == "set_at"][: (400 if tier == "thorough" else 60)]
    for c in rt_cases:
        items.append((c, "numpy", timeout_ms, "roundtrip"))
    twin_cases = cases[:: max(1, len(cases) // 12)][:12]
    for c in twin_cases:
        items.append((c, "numpy", timeout_ms, "twin"))
    results = runner.pmap(work, items, chunksize=4)
    status = collections.Counter()
    per_op = collections.defaultdict(collections.Counter)
    tags = collections.Counter()
    solver_s = 0.0
    samples, nontrivial = [], set()
    twin_verdicts = collections.Counter()
    for (case, backend, _, mode), r in zip(items, results):
        st_ = r["status"]
        if mode == "twin":
            twin_verdicts[r.get("verdict", st_)] += 1
            continue
        status[mode + ":" + st_] += 1
        per_op[case["op"]][st_] += 1
        solver_s += r.get("solver_s", 0.0)
        if st_ == "holds":
            for t in case["tags"]:
                tags[t] += 1
            nontrivial.add((mode, case["op"], case["desc"], str([shape(expand(e)) for e in case["ins"]])))
            if len(samples) < 10 and len(case["tags"]) >= 4:
                samples.append({"mode": mode, "call": f"einx.{case['op']}({case['desc']!r})", "shapes": [list(shape(expand(e))) for e in case["ins"]], "backend": backend, "update_slots": n_slots(case), "verdict": r.get("verdict"), "solver_s": round(r.get("solver_s", 0), 4)})
        elif st_ == "violation":
            sig = {"op": case["op"], "desc": case["desc"], "backend": backend, "mode": mode, "shapes": [list(shape(expand(e))) for e in case["ins"]]}
            rep.violation(sig, r["replay"], f"[{mode}] einx.{case['op']}({case['desc']!r}) backend={backend}\n{r.get('replay_out', '')[-600:]}")
        elif st_ == "not-reproduced":
            rep.harness_error(f"counterexample did not reproduce: {case['op']} {case['desc']!r} [{mode}] replay={r.get('replay')} {r.get('replay_out', '')[-300:]}")
        elif st_ == "harness-error":
            rep.harness_error(f"{r.get('error')} {r.get('trace', '')[-600:]}")
        elif st_ in ("unknown", "unmodelled"):
            rep.inconclusive.append({"why": st_, "mode": mode, "op": case["op"], "desc": case["desc"], "backend": backend})
    if twin_verdicts.get("sat", 0) == 0:
        rep.harness_error(f"no vacuity twin (reference with the last update dropped) was refuted: {dict(twin_verdicts)}")
    rep.coverage = {
        "programs": len(items),
        "disagreements_checked": sum(v for k, v in status.items() if k.endswith(":violation") or k.endswith(":not-reproduced")),
        "samples": samples,
        "evaluations": len(items),
        "distinct_nontrivial": len(nontrivial),
        "rule": "one harness = (set_at|add_at|subtract_at, description, shapes, backend) with symbolic target, update and coordinate contents; non-trivial = z3 unsat for the per-position assertion over all contents and all in-range coordinates incl. duplicates",
        "status_counts": dict(status),
        "per_op": {k: dict(v) for k, v in per_op.items()},
        "solver_time_s": round(solver_s, 3),
        "constructs_in_passing_cases": dict(tags),
        "vacuity_twins": dict(twin_verdicts),
        "model_selftest": {"checks": st["checks"], "failures": len(st["failures"])},
        "bounds": {"target_elements_max": MAX_TARGET[tier], "update_slots_max": MAX_SLOTS[tier], **family.Bounds(tier).as_dict()},
        "backends": ["numpy", "numpy.numpylike"],
    }
    rep.assumptions = [
        "coordinates are in range (negative / out-of-range coordinates outside the claim)",
        "contents are mathematical integers",
        "symbolic store model of np.put / np.add.at / np.subtract.at (validated against numpy at every run, incl. cycling of short value vectors)",
        "shapes/descriptions enumerated within the stated bounds",
    ]
    rep.finish()


if __name__ == "__main__":
    main()
